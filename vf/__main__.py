"""usage: python -m vf <CNN> quick|thorough        run a check
          python -m vf <CNN> --replay <file>        re-execute one stored case twice (no explorer)
"""
import importlib
import json
import os
import sys
import traceback

from . import core


def main(argv):
    if len(argv) < 2:
        print(__doc__)
        return 2
    prop = argv[0].upper()
    try:
        if prop == "C13":
            # before the package is imported: locks created by the package (and by what it imports) become cooperative, so
            # that the schedule explorer owns waiting on them
            from . import sched
            sched.install_coop_locks()
        backend = core.bind_repo()
        from .ref import secp, enc, hd
        try:
            secp.selftest()
            enc.selftest()
            hd.selftest()
        except AssertionError:
            raise core.HarnessError("reference self-test failed:\n" + traceback.format_exc())
        if prop == "SELFTEST":
            print("setup ok: repo bound (%s back-end), reference self-tests passed" % backend)
            return 0
        mod = importlib.import_module("vf.checks." + prop.lower())
        if argv[1] == "--replay":
            rec = json.load(open(argv[2]))
            case = rec["case"]
            a = core.run_replay(mod, case)
            b = core.run_replay(mod, case)
            ka, kb = sorted(v["key"] for v in a), sorted(v["key"] for v in b)
            if ka != kb:
                raise core.HarnessError("replay not deterministic: %r vs %r" % (ka, kb))
            if a:
                for v in a:
                    print("REPRODUCED key=%s: %s" % (v["key"], v["msg"][:400]))
                print("VIOLATION property=%s replay=%s" % (prop, argv[2]))
                return 1
            print("replay: case no longer violates %s" % prop)
            return 0
        tier = argv[1]
        if tier not in ("quick", "thorough"):
            tier = os.environ.get("VERIF_TIER", "quick")
        seed = int(os.environ.get("VERIF_SEED", "0") or 0)
        ctx = core.Ctx(prop, tier, seed, mod.LEVEL)
        ctx.assumptions.append("curve back-end executed: %s (pysecp256k1 is not importable in this image)" % backend)
        ctx.assumptions.append("trusted: CPython 3.12, hashlib/OpenSSL (SHA-2, RIPEMD-160, HMAC), unicodedata, /verif/vf/ref")
        try:
            extra = mod.run(ctx)
        except core.HarnessError:
            raise
        except Exception as e:
            # an exception raised INSIDE the package under test on a path the check expects to work (in the parent process)
            v = core.impl_exception(prop, e)
            if v is None:
                raise
            ctx.close()
            ctx.violate("run", v)
            ctx.note("run", 2, 2, {"aborted-by-implementation-exception": 2}, sample={"exception": v["msg"]})
            extra = {"aborted": v["msg"]}
        return core.finish(ctx, mod, extra)
    except core.HarnessError as e:
        print("HARNESS-ERROR %s: %s" % (prop, e), file=sys.stderr)
        return 2
    except Exception:
        print("HARNESS-ERROR %s: unexpected exception\n%s" % (prop, traceback.format_exc()), file=sys.stderr)
        return 2


if __name__ == "__main__":
    sys.exit(main(sys.argv[1:]))
