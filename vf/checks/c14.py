"""C14 - watch-only wallets reproduce all public data and can never yield private data."""
from ..core import attempt, V, R, isolated
from ..ref import hd, secp
from ..bfs import bfs

LEVEL = "model_checking"
P = "C14"
H = hd.H
KINDS = ("p2pkh", "p2wpkh", "p2sh_p2wpkh", "p2wsh", "p2sh_p2wsh")
PUBV = [v for v in sorted(hd.SLIP132) if hd.SLIP132[v][1] == "pub"]
RULE = ("explicit-state BFS over non-hardened sub-paths (alphabet {0,1,2^31-1}, depth<=3) below every export node {m, m/0, m/44'/0'/0', "
        "m/84'/1'/5'/0, a depth-6 node, a depth-200 node with child number 2^32-1} x ALL 6 public version prefixes x seeds: in every state "
        "the watch-only node (key, chain code, depth, fingerprint, child number, 5 address kinds, SLIP-132 public key string) must equal "
        "the full wallet's node below the same export node and the reference; per export wallet a refusal/secrecy grid (watch_only flag, "
        "no BIP85, prv None, private-key and hardened requests raise, generate() raises, group rows end in None, object-graph scan for "
        "any private scalar/WIF/xprv of the full wallet); request histories on ONE watch-only wallet (depth 2, thorough 3). "
        "non-trivial = state compared with full wallet and reference; distinct = distinct nodes"
        "; hardened requests through bulk generation on root and derived node; intermediate-corner classes (vf/corners.py) for one public step (IL, IR, parent x/y, child x/y, fingerprints) over the six public prefixes")

SEEDS = ["000102030405060708090a0b0c0d0e0f", "fffcf9f6f3f0edeae7e4e1dedbd8d5d2cfccc9c6c3c0bdbab7b4b1aeaba8a5a29f9c999693908d8a8784817e7b7875726f6c696663605d5a5754514e4b484542",
         "a5" * 32, "0123456789abcdef" * 8]
EXPORTS = [("m", []), ("m/0", [0]), ("m/44'/0'/0'", [H + 44, H, H]), ("m/84'/1'/5'/0", [H + 84, H + 1, H + 5, 0]),
           ("depth6", [H + 1, 2, H + 3, 4, 5, H - 1]), ("depth200", None)]


def export_node(seed_i, ei):
    m = hd.master(bytes.fromhex(SEEDS[seed_i]))
    name, path = EXPORTS[ei]
    if path is None:
        n = hd.derive(m, [H + 9, 8])
        return hd.node_from_priv(n.k, n.chain, 200, 2**32 - 1, b"\xde\xad\xbe\xef")
    return hd.derive(m, path)


def wallets(seed_i, ei, version):
    from btc_hd_wallet.paper_wallet import PaperWallet
    node = export_node(seed_i, ei)
    name, kind, net, bip = hd.SLIP132[version]
    testnet = net == "test"
    wo = PaperWallet.from_extended_key(hd.xpub(node, version))
    full = PaperWallet.from_extended_key(hd.xprv(node, hd.version_for("prv", testnet, bip)))
    return wo, full, node, testnet


def public_view(w, n):
    return {"key": n.public_key.sec().hex(), "chain": bytes(n.chain_code).hex(), "depth": n.depth, "index": n.index,
            "fp": bytes(n.parent_fingerprint).hex(), "addr": {k: getattr(w, k + "_address")(n) for k in KINDS},
            "xpub": w.node_extended_keys(n)["pub"], "node_xpub": n.extended_public_key(), "path": str(n).replace("m", "M", 1)}


def ref_view(refn, testnet, sub, wo_xpub_version_of):
    return {"key": secp.sec(refn.K).hex(), "chain": refn.chain.hex(), "depth": refn.depth, "index": refn.index, "fp": refn.pfp.hex(),
            "addr": {k: hd.ADDR[k](refn.K, testnet) for k in KINDS}}


class SubPaths:
    """BFS over sub-paths below one export node; each state is derived on a fresh watch-only and a fresh full wallet.
    canon = reference node (distinct sub-paths give distinct keys)."""

    def __init__(self, seed_i, ei, version, alphabet):
        self.seed_i, self.ei, self.version, self.alphabet = seed_i, ei, version, alphabet

    def ops(self, hist):
        return self.alphabet

    def run(self, hist):
        wo, full, node, testnet = wallets(self.seed_i, self.ei, self.version)
        refn = hd.derive(hd.neuter(node), hist)
        name = hd.SLIP132[self.version][0]
        viols = []
        st, a = attempt(lambda: public_view(wo, wo.master.derive_path(list(hist))))
        st2, b = attempt(lambda: public_view(full, full.master.derive_path(list(hist))))
        if st != "ok" or st2 != "ok":
            viols.append(V("%s:derive:%s:raised" % (P, name), "sub-path %r below %s (%s): watch-only %s / full %s" % (
                hist, EXPORTS[self.ei][0], name, a if st != "ok" else "ok", b if st2 != "ok" else "ok")))
        else:
            if a != b:
                diff = sorted(k for k in a if a[k] != b[k])
                viols.append(V("%s:watch-only-vs-full:%s:%s-differs" % (P, name, "+".join(diff)), "sub-path %r below %s (%s)" % (hist, EXPORTS[self.ei][0], name),
                               {k: a[k] for k in diff}, {k: b[k] for k in diff}))
            rv = ref_view(refn, testnet, hist, None)
            bad = sorted(k for k in rv if a.get(k) != rv[k])
            if bad:
                viols.append(V("%s:watch-only-vs-reference:%s:%s-differs" % (P, "depth>=128" if refn.depth >= 128 else name, "+".join(bad)),
                               "sub-path %r below %s (%s)" % (hist, EXPORTS[self.ei][0], name), {k: a[k] for k in bad}, {k: rv[k] for k in bad}))
            else:
                raw = __import__("vf.ref.enc", fromlist=["x"]).b58check_decode(a["xpub"])
                if hd.SLIP132.get(int.from_bytes(raw[:4], "big"), ("", "", "", 0))[1:3] != ("pub", "test" if testnet else "main") or raw[45:] != secp.sec(refn.K):
                    viols.append(V("%s:node_extended_keys:%s:wrong-pub" % (P, name), "pub string of sub-path %r" % (hist,), a["xpub"]))
        return {"canon": [secp.sec(refn.K).hex(), refn.chain.hex(), refn.depth] if not viols else ["bad", hist], "viols": viols,
                "label": "violation" if viols else "state-equal"}


def reachable_strings(obj, seen=None, depth=0):
    """all bytes/str reachable through __slots__/__dict__/containers of package objects"""
    if seen is None:
        seen = set()
    out = []
    if id(obj) in seen or depth > 40:
        return out
    seen.add(id(obj))
    if isinstance(obj, (bytes, bytearray)):
        return [bytes(obj)]
    if isinstance(obj, str):
        return [obj.encode()]
    if isinstance(obj, (int, float, bool, type(None))):
        return out
    if isinstance(obj, (list, tuple, set, frozenset)):
        for x in obj:
            out += reachable_strings(x, seen, depth + 1)
        return out
    if isinstance(obj, dict):
        for k, v in obj.items():
            out += reachable_strings(k, seen, depth + 1) + reachable_strings(v, seen, depth + 1)
        return out
    mod = type(obj).__module__ or ""
    if not mod.startswith("btc_hd_wallet"):
        return out
    names = []
    for c in type(obj).__mro__:
        names += list(getattr(c, "__slots__", ()) if not isinstance(getattr(c, "__slots__", ()), str) else [c.__slots__])
    names += list(getattr(obj, "__dict__", {}).keys())
    for n in names:
        try:
            out += reachable_strings(getattr(obj, n), seen, depth + 1)
        except AttributeError:
            pass
    return out


def chk_refusals(seed_i, ei, version):
    wo, full, node, testnet = wallets(seed_i, ei, version)
    name = hd.SLIP132[version][0]
    viols = []

    def must_raise(f, what):
        st, out = attempt(f)
        if st == "ok":
            viols.append(V("%s:%s:%s:returned" % (P, what, name), "watch-only wallet (%s at %s): %s returned %r" % (name, EXPORTS[ei][0], what, str(out)[:80])))

    if wo.watch_only is not True:
        viols.append(V("%s:watch_only:%s:false" % (P, name), "wallet from %s reports watch_only=%r" % (name, wo.watch_only)))
    if wo.bip85 is not None:
        viols.append(V("%s:bip85:%s:offered" % (P, name), "watch-only wallet offers BIP85"))
    def must_work(f, what):
        st, out = attempt(f)
        if st != "ok":
            viols.append(V("%s:%s:%s:raised" % (P, what, "depth>=128" if node.depth >= 128 else name),
                           "watch-only wallet (%s at %s): %s raised %s" % (name, EXPORTS[ei][0], what, out)))
            return None
        return out

    child = must_work(lambda: wo.master.derive_path([0, 1]), "derive_path")
    if child is None:
        return viols, 0
    ek = must_work(lambda: wo.node_extended_keys(child), "node_extended_keys")
    if ek is None:
        return viols, 0
    # duplicates of a derived watch-only node, and of the wallet itself, show the same public data (and still no private data)
    from .. import hdscen
    base_view = must_work(lambda: public_view(wo, child), "public_view")
    refn = hd.derive(hd.neuter(node), [0, 1])
    rv = ref_view(refn, testnet, [0, 1], None)
    for how, c in hdscen.clones(child):
        st, pv = attempt(lambda: public_view(wo, c))
        if st == "ok" and isinstance(pv, dict) and isinstance(base_view, dict):
            pv = dict(pv, path=base_view.get("path"))       # whether a duplicate keeps its parent link (path label) is not judged
        if st != "ok" or pv != base_view or any(pv.get(k) != rv[k] for k in rv):
            viols.append(V("%s:clone:node:%s:%s:differs" % (P, how, name), "%s of the derived watch-only node M/0/1 (%s at %s) shows other public data" % (how, name, EXPORTS[ei][0]),
                           str(pv)[:200], str(base_view)[:200]))
        must_raise(lambda: c.extended_private_key(), "extended_private_key(clone)")
    for how, w2 in hdscen.clones(wo):
        st, pv = attempt(lambda: public_view(w2, w2.master.derive_path([0, 1])))
        if st != "ok" or pv != base_view:
            viols.append(V("%s:clone:wallet:%s:%s:differs" % (P, how, name), "%s of the watch-only wallet (%s at %s) derives other public data" % (how, name, EXPORTS[ei][0]),
                           str(pv)[:200], str(base_view)[:200]))
        if getattr(w2, "watch_only", True) is not True:
            viols.append(V("%s:clone:wallet:%s:watch_only-lost" % (P, how), "%s of a watch-only wallet reports watch_only=%r" % (how, w2.watch_only)))
    if ek.get("prv") is not None:
        viols.append(V("%s:node_extended_keys:%s:prv-present" % (P, name), "prv = %r" % ek["prv"]))
    must_raise(lambda: wo.node_extended_private_key(child), "node_extended_private_key")
    must_raise(lambda: wo.node_extended_private_key(wo.master), "node_extended_private_key")
    must_raise(lambda: child.private_key, "private_key")
    must_raise(lambda: child.extended_private_key(), "extended_private_key")
    must_raise(lambda: wo.master.ckd(H), "hardened-ckd")
    must_raise(lambda: wo.master.ckd(2**32 - 1), "hardened-ckd")
    must_raise(lambda: wo.by_path("M/0'"), "hardened-by_path")
    must_raise(lambda: wo.by_path("M/0/1'/2"), "hardened-by_path")
    must_raise(lambda: wo.master.derive_path([0, H + 1]), "hardened-derive_path")
    # hardened children through the BULK entry point, on the root and on a derived node; a window that straddles 2^31 may
    # serve its normal part only if it then raises or stops - it must never hand out a node with a hardened child number
    for holder, hn in ((wo.master, "master"), (child, "child")):
        for iv in ((H, H + 2), (H + 5, H + 6), (2**32 - 2, 2**32)):
            must_raise(lambda: holder.generate_children(iv), "hardened-generate_children")
            must_raise(lambda: holder.generate_children(interval=iv), "hardened-generate_children")
        st, out = attempt(lambda: holder.generate_children((H - 2, H + 2)))
        if st == "ok" and any(getattr(c, "index", 0) >= H for c in out):
            viols.append(V("%s:hardened-generate_children:%s:returned" % (P, name), "generate_children((2^31-2, 2^31+2)) on the watch-only %s returned hardened children" % hn))
    must_raise(lambda: wo.generate(0, (0, 1)), "generate")
    must_raise(lambda: wo.bip44(0, (0, 1)), "bip44")
    must_raise(lambda: wo.bip85_data(), "bip85_data")
    rows = must_work(lambda: wo.group([child, wo.master], wo.p2wpkh_address), "group")
    if rows is not None and any(r[-1] is not None for r in rows):
        viols.append(V("%s:group:%s:wif-present" % (P, name), "group rows of a watch-only wallet end in %r" % [r[-1] for r in rows]))
    # drive some more derivations, then scan the object graph
    attempt(lambda: [wo.by_path(p) for p in ("M/0", "M/0/1", "M/1/2147483647")])
    def drive():
        g = wo.address_generator(wo.master)
        return next(g), g.send(3)
    must_work(drive, "address_generator")
    secrets = []
    for sub in ([], [0], [0, 1], [1, H - 1], [3]):
        fn = hd.derive(node, sub)
        secrets += [fn.k.to_bytes(32, "big"), hd.wif(fn.k, True, testnet).encode(), hd.wif(fn.k, True, not testnet).encode(),
                    hd.xprv(fn, hd.version_for("prv", testnet, 44)).encode()]
    blob = reachable_strings(wo)
    for sec_ in secrets:
        if any(sec_ in b for b in blob):
            viols.append(V("%s:object-graph:%s:secret-reachable" % (P, name), "a private scalar / WIF / xprv of the full wallet is reachable from the watch-only wallet object"))
            break
    return viols, len(blob)


HIST_OPS = ["M/0/5", "M/0/0", "M/0", "M/0/1", "M/5", "ckd5", "children02", "gen3", "M/0/1/2/3/4/5/6", "genM-skip", "genM3",
            # children asked for OUT OF ORDER, then in bulk (the long cyclic histories run these five in this order)
            "ckd0", "ckd2", "ckd1", "ckd3", "children04"]


class WatchOnlyHistories:
    """requests on ONE watch-only wallet object in sequence vs a fresh full wallet / the reference. canon = the history."""

    def ops(self, hist):
        return HIST_OPS

    def run(self, hist):
        wo, full, node, testnet = wallets(0, 2, 0x0488B21E)
        viols, label = [], "init"
        for n, op in enumerate(hist):
            last = n == len(hist) - 1
            if op.startswith("M/"):
                sub = [int(x) for x in op.split("/")[1:]]
                st, nd = attempt(wo.by_path, op)
                got = [public_view(wo, nd)] if st == "ok" else nd
                subs = [sub]
            elif op.startswith("ckd"):
                sub = [int(op[3:])]
                st, nd = attempt(wo.master.ckd, sub[0])
                got = [public_view(wo, nd)] if st == "ok" else nd
                subs = [sub]
            elif op == "genM-skip":
                # a scan on the ROOT node that skips ahead and is then abandoned (closed): judged only through what follows
                def skip():
                    g = wo.address_generator(wo.master)
                    next(g)
                    g.send(5)
                    g.close()
                    return "closed"
                st, got = attempt(skip)
                subs = "skip"
            elif op == "genM3":
                def gen_m():
                    g = wo.address_generator(wo.master)
                    return [next(g), next(g), next(g)]
                st, got = attempt(gen_m)
                subs = "genM3"
            elif op in ("children02", "children04"):
                hi = int(op[-1])
                st, nds = attempt(wo.master.generate_children, (0, hi))
                got = [public_view(wo, x) for x in nds] if st == "ok" else nds
                subs = [[i] for i in range(hi)]
                if st == "ok" and len(nds) != hi:
                    st, got = "exc", "generate_children((0, %d)) returned %d nodes" % (hi, len(nds))
            else:
                def gen():
                    g = wo.address_generator(wo.master.derive_path([0]))
                    return [next(g), g.send(2), next(g)]
                st, got = attempt(gen)
                subs = None
            if not last:
                continue
            if subs == "skip" or (st != "ok" and op.startswith("M/") and op.count("/") > 5):
                pass          # an abandoned scan has no result of its own; a path deeper than five levels may be refused
            elif st != "ok":
                viols.append(V(P + ":history:raised", "after %r on the same watch-only wallet, %s raised %s" % (hist[:-1], op, got)))
            elif subs == "genM3":
                exp = [("M/%d" % i, hd.p2wpkh(hd.derive(hd.neuter(node), [i]).K, testnet)) for i in (0, 1, 2)]
                if [tuple(x) for x in got] != exp:
                    viols.append(V(P + ":history:address_generator:wrong", "after %r: a fresh generator on the root yields %r" % (hist[:-1], got), None, exp))
            elif subs is None:
                exp = [("M/0/%d" % i, hd.p2wpkh(hd.derive(hd.neuter(node), [0, i]).K, testnet)) for i in (0, 2, 3)]
                if [tuple(x) for x in got] != exp:
                    viols.append(V(P + ":history:address_generator:wrong", "after %r: generator yields %r" % (hist[:-1], got), None, exp))
            else:
                for sub, view in zip(subs, got):
                    rv = ref_view(hd.derive(hd.neuter(node), sub), testnet, sub, None)
                    bad = sorted(k for k in rv if view.get(k) != rv[k])
                    if bad:
                        viols.append(V("%s:history:%s:wrong-%s" % (P, "by_path" if op.startswith("M/") else op.rstrip("0123456789"), "+".join(bad)),
                                       "after %r on the same watch-only wallet, %s gives a node that differs from the reference in %r" % (hist[:-1], op, bad),
                                       {k: view[k] for k in bad}, {k: rv[k] for k in bad}))
            label = "violation" if viols else "answer-ok"
        return {"canon": hist, "viols": viols, "label": label}


XOPS = [[w, r, sub] for w in ("full", "wo") for r, sub in (("xkeys", []), ("xkeys", [0]), ("xkeys", [0, 1]), ("group", [0]), ("view", [1]))]


class FullAndWatchOnlyHistories:
    """a FULL wallet and a WATCH-ONLY wallet of the same export node used alternately in one process: whatever the full
    wallet was asked before, the watch-only wallet must never hand out private data and must keep its own (M) paths; the
    full wallet must keep giving its private data. canon = the history."""

    def ops(self, hist):
        return XOPS

    def run(self, hist):
        wo, full, node, testnet = wallets(0, 2, 0x04B24746)
        ws = {"full": full, "wo": wo}
        viols, label = [], "init"
        for n, (wid, req, sub) in enumerate(hist):
            w = ws[wid]
            last = n == len(hist) - 1

            def go():
                nd = w.master.derive_path(list(sub))
                if req == "xkeys":
                    return w.node_extended_keys(nd)
                if req == "group":
                    return w.group([nd], w.p2wpkh_address)
                return public_view(w, nd)
            st, out = attempt(go)
            if not last:
                continue
            refn = hd.derive(node, sub)
            if st != "ok":
                viols.append(V(P + ":full+watch-only-history:raised", "after %r: %s.%s%r raised %s" % (hist[:-1], wid, req, sub, out)))
            elif req == "xkeys":
                exp_prv = None if wid == "wo" else hd.xprv(refn, hd.version_for("prv", testnet, 44 if not sub else 44))
                mark = "M" if wid == "wo" else "m"
                if wid == "wo" and out.get("prv") is not None:
                    viols.append(V(P + ":full+watch-only-history:watch-only-got-prv", "after %r in the same process the watch-only wallet's node_extended_keys%r returned prv=%r" % (
                        hist[:-1], sub, str(out.get("prv"))[:20] + "...")))
                if not str(out.get("path", "")).startswith(mark):
                    viols.append(V(P + ":full+watch-only-history:wrong-path-mark", "after %r: %s wallet's path is %r" % (hist[:-1], wid, out.get("path"))))
                if wid == "full" and not out.get("prv"):
                    viols.append(V(P + ":full+watch-only-history:full-lost-prv", "after %r the full wallet's node_extended_keys%r has no prv" % (hist[:-1], sub)))
                raw = __import__("vf.ref.enc", fromlist=["x"]).b58check_decode(out["pub"])
                if raw[45:] != secp.sec(refn.K):
                    viols.append(V(P + ":full+watch-only-history:wrong-pub", "after %r: %s pub key of %r wrong" % (hist[:-1], wid, sub)))
            elif req == "group":
                row = out[0]
                if wid == "wo" and row[-1] is not None:
                    viols.append(V(P + ":full+watch-only-history:watch-only-got-wif", "after %r the watch-only group row ends in %r" % (hist[:-1], row[-1])))
                if wid == "full" and row[-1] != hd.wif(refn.k, True, testnet):
                    viols.append(V(P + ":full+watch-only-history:full-wrong-wif", "after %r the full wallet's row WIF is %r" % (hist[:-1], row[-1])))
                if row[1] != hd.p2wpkh(refn.K, testnet):
                    viols.append(V(P + ":full+watch-only-history:wrong-address", "after %r: %s address of %r" % (hist[:-1], wid, sub)))
            else:
                rv = ref_view(hd.neuter(refn), testnet, sub, None)
                bad = sorted(k for k in rv if out.get(k) != rv[k])
                if bad:
                    viols.append(V(P + ":full+watch-only-history:view-differs", "after %r: %s view of %r differs in %r" % (hist[:-1], wid, sub, bad)))
            label = "violation" if viols else "answer-ok"
        return {"canon": hist, "viols": viols, "label": label}


def chk_corner(k_hex, chain_hex, i, version):
    """one watch-only derivation step whose computed intermediates sit on a corner: watch-only == full == reference"""
    from btc_hd_wallet.paper_wallet import PaperWallet
    name, kind, net, bip = hd.SLIP132[version]
    testnet = net == "test"
    node = hd.node_from_priv(int(k_hex, 16), bytes.fromhex(chain_hex), 3, H + 2, b"\x01\x02\x03\x04")
    wo = PaperWallet.from_extended_key(hd.xpub(node, version))
    full = PaperWallet.from_extended_key(hd.xprv(node, hd.version_for("prv", testnet, bip)))
    refn = hd.derive(hd.neuter(node), [i])
    refg = hd.derive(refn, [1])
    viols = []
    for label, f in (("by_path", lambda w: w.by_path("M/%d" % i)), ("ckd", lambda w: w.master.ckd(i))):
        st, a = attempt(lambda: public_view(wo, f(wo)))
        st2, b = attempt(lambda: public_view(full, f(full)))
        if st != "ok" or st2 != "ok":
            viols.append(V("%s:corner:%s:raised" % (P, label), "%s(%d) below %s: watch-only %s / full %s" % (label, i, name, a if st != "ok" else "ok", b if st2 != "ok" else "ok")))
            continue
        rv = ref_view(refn, testnet, [i], None)
        bad = sorted(k for k in rv if a.get(k) != rv[k])
        if bad:
            viols.append(V("%s:corner:watch-only-vs-reference:%s-differs" % (P, "+".join(bad)), "%s(%d) below %s" % (label, i, name), {k: a[k] for k in bad}, {k: rv[k] for k in bad}))
        elif a != b:
            diff = sorted(k for k in a if a[k] != b[k])
            viols.append(V("%s:corner:watch-only-vs-full:%s-differs" % (P, "+".join(diff)), "%s(%d) below %s" % (label, i, name)))
    # the cornered child as a parent
    st, g = attempt(lambda: public_view(wo, wo.master.ckd(i).ckd(1)))
    rg = ref_view(refg, testnet, [i, 1], None)
    if st != "ok" or any(g.get(k) != rg[k] for k in rg):
        viols.append(V("%s:corner:grandchild:differs" % P, "ckd(%d).ckd(1) below %s: %s" % (i, name, g if st != "ok" else "fields differ")))
    return viols


def execute(case):
    k = case.get("k")
    if "hist" in case and case.get("layer", "").startswith("full-and-watch-only-histories"):
        r = isolated(FullAndWatchOnlyHistories().run, case["hist"])
        for v in r["viols"]:
            v["case"] = case
        return R(r["label"], viols=r["viols"])
    if k == "corner":
        vs = chk_corner(case["key"], case["chain"], case["i"], case["v"])
        for v in vs:
            v["case"] = case
        return R("violation" if vs else "corner-state-equal", viols=vs, n=3)
    if k == "refusals":
        vs, n = chk_refusals(case["seed"], case["export"], case["version"])
        return R("violation" if vs else "refusals-and-secrecy-ok", viols=vs, extra=n)
    if k == "subpath":
        r = SubPaths(case["seed"], case["export"], case["version"], case["alphabet"]).run(case["hist"])
        for v in r["viols"]:
            v["case"] = case
        return R(r["label"], viols=r["viols"])
    if "hist" in case:
        r = isolated(WatchOnlyHistories().run, case["hist"])
        for v in r["viols"]:
            v["case"] = case
        return R(r["label"], viols=r["viols"])
    raise ValueError(k)


def replay(case):
    if "hist" in case and "model" in case:
        case = dict(case["model"], k="subpath", hist=case["hist"])
    return execute(case)["v"]


def run(ctx):
    ns = 4 if ctx.thorough else 2
    alpha = [0, 1, H - 1]
    models = {}
    n = 0
    for s in range(ns):
        for ei in range(len(EXPORTS)):
            # every export node under every public version; the BFS depth is 3 for the first seed, 2 otherwise (thorough: 3 everywhere)
            for v in PUBV:
                depth = 3 if (ctx.thorough or (s == 0 and v in (0x0488B21E, 0x045F1CF6))) else (2 if s == 0 else 1)
                layer = "subpaths-s%d-e%d-%s" % (s, ei, hd.SLIP132[v][0])
                models[layer] = {"seed": s, "export": ei, "version": v, "alphabet": alpha}
                bfs(ctx, layer, SubPaths(s, ei, v, alpha), depth, isolate=False)
                n += 1
    for v in ctx.violations:
        c = v.get("case")
        if isinstance(c, dict) and "hist" in c and c.get("layer") in models:
            c["model"] = models[c["layer"]]
    for smp in ctx.samples:
        if smp.get("layer") in models and "history" in smp:
            smp["model"] = models[smp["layer"]]
    ctx.samples[:] = ctx.samples[:3] + ctx.samples[-3:]
    cases = [{"k": "refusals", "seed": s, "export": ei, "version": v} for s in range(ns) for ei in range(len(EXPORTS)) for v in PUBV]
    agg = ctx.product("refusals-and-object-graph", cases, execute, chunk=1)
    # corner classes of the computed intermediates of ONE public derivation step (vf/corners.py): IL, IR, parent x / y, CHILD x / y,
    # fingerprint - every byte position 00 / ff, every first / last byte value; versions rotate through the six public prefixes
    from .. import corners as cm
    from ..ref import enc
    from ..core import HarnessError
    base = int.from_bytes(enc.sha256(b"C14-corner-base-%d" % ctx.seed), "big") % (hd.N - 10**6) + 1

    def cands():
        for n_, (k_, pt) in enumerate(cm.scalar_walk(base, secp)):
            chain = enc.sha256(b"C14-chain-%d" % n_)
            i = int.from_bytes(enc.sha256(b"C14-idx-%d" % n_)[:4], "big") % H
            sec_ = secp.sec(pt)
            I_ = enc.hmac_sha512(chain, sec_ + i.to_bytes(4, "big"))
            il = int.from_bytes(I_[:32], "big")
            if il >= hd.N or (il + k_) % hd.N == 0:
                continue
            cpt = secp.pub((il + k_) % hd.N)
            yield ("%x" % k_, chain.hex(), i, PUBV[n_ % len(PUBV)]), {"IL": I_[:32], "IR": I_[32:], "x": sec_[1:], "y": pt[1].to_bytes(32, "big"),
                                                                       "cx": cpt[0].to_bytes(32, "big"), "cy": cpt[1].to_bytes(32, "big"),
                                                                       "fp": enc.hash160(sec_)[:4], "cfp": enc.hash160(secp.sec(cpt))[:4]}
    kept, st = cm.cover(cands(), {"IL": 32, "IR": 32, "x": 32, "y": 32, "cx": 32, "cy": 32, "fp": 4, "cfp": 4}, 60000, pairs=ctx.thorough)
    ctx.extra["intermediate_corner_classes"] = st
    if st["covered"] != st["classes"]:
        raise HarnessError("corner cover incomplete: %r" % (st,))
    ctx.product("intermediate-corners", [{"k": "corner", "key": c[0], "chain": c[1], "i": c[2], "v": c[3]} for c, _ in kept], execute, chunk=8)
    bfs(ctx, "requests-on-one-watch-only-wallet", WatchOnlyHistories(), 3 if ctx.thorough else 2, chunk=2)
    bfs(ctx, "full-and-watch-only-histories", FullAndWatchOnlyHistories(), 3 if ctx.thorough else 2, chunk=2)
    from ..bfs import long_histories
    long_histories(ctx, "requests-on-one-watch-only-wallet+long", WatchOnlyHistories(), rotations=9 if ctx.thorough else 3, rounds=2)
    from ..bfs import eviction_probe
    eviction_probe(ctx, "requests-on-one-watch-only-wallet+revisits", WatchOnlyHistories(), lambda i: "M/0/%d" % i, sizes=(1, 2, 3, 4, 5, 8, 9, 16, 17, 20, 21, 32, 33))
    long_histories(ctx, "full-and-watch-only-histories+long", FullAndWatchOnlyHistories(), rotations=10 if ctx.thorough else 3, rounds=2)
    return {"export_wallets": n, "object_graph_strings_scanned": sum(agg["x"]), "subpath_alphabet": alpha}
