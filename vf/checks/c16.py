"""C16 - mainnet and testnet artefacts never mix."""
import json
import re

from ..core import attempt, V, R, isolated
from ..ref import hd, secp, enc
from ..bfs import bfs

LEVEL = "exploration"
P = "C16"
H = hd.H
RULE = ("networks x seeds x accounts {0,1,2^31-2} x every output-producing API (five address kinds on BIP44/49/84 and arbitrary nodes, "
        "generate(), node_extended_keys, default-version node keys, Wasabi export) and wallets re-imported from ALL 12 version prefixes "
        "at 3 export nodes; plus histories that alternate requests between a mainnet and a testnet wallet in one process. Oracle: an "
        "independent classifier tags every string leaf (Base58Check version byte, Bech32 prefix, SLIP-132 version, coin type in a "
        "BIP44-shaped path) as main/test/untagged; every tagged leaf must carry the wallet's network and at least the expected number "
        "of leaves must be tagged. non-trivial = output walked and >= 1 leaf tagged; distinct by construction"
        "; also address generators (default and explicit address function), group / bip44/49/84_group rows, WIF and addresses through a node's key objects, grandchildren keys")

PATH_RE = re.compile(r"^[mM]/(44|49|84)'/(\d+)'(/|$)")
SEEDS = ["000102030405060708090a0b0c0d0e0f", "ff" * 32, "5eb00bbddcf069084889a8ab9155568165f5c453ccb85e70811aaed6f6da5fc19a5ac40b389cd370d086206dec8aa6c43daea6690f20ad3d8d48b2d2ce9e38e4",
         "0f" * 64, "a1" * 16]


def classify(s):
    """-> 'main' | 'test' | None"""
    if not isinstance(s, str):
        return None
    m = PATH_RE.match(s)
    if m:
        return {"0": "main", "1": "test"}.get(m.group(2))
    try:
        p = enc.b58check_decode(s)
        if len(p) == 21 and p[0] in (0x00, 0x05):
            return "main"
        if len(p) == 21 and p[0] in (0x6F, 0xC4):
            return "test"
        if len(p) in (33, 34) and p[0] == 0x80:
            return "main"
        if len(p) in (33, 34) and p[0] == 0xEF:
            return "test"
        if len(p) == 78:
            v = int.from_bytes(p[:4], "big")
            if v in hd.SLIP132:
                return hd.SLIP132[v][2]
        return None
    except ValueError:
        pass
    for hrp, net in (("bc", "main"), ("tb", "test")):
        if s.lower().startswith(hrp + "1") and enc.segwit_decode(hrp, s) is not None:
            return net
    return None


def leaves(x):
    if isinstance(x, dict):
        for k, v in x.items():
            yield from leaves(k)
            yield from leaves(v)
    elif isinstance(x, (list, tuple)):
        for v in x:
            yield from leaves(v)
    else:
        yield x


def audit(obj, net, what, min_tagged):
    tags = [(classify(l), l) for l in leaves(obj)]
    wrong = [l for t, l in tags if t is not None and t != net]
    tagged = sum(1 for t, _ in tags if t is not None)
    viols = []
    if wrong:
        kind = "path" if PATH_RE.match(wrong[0]) else "bech32" if wrong[0][:3].lower() in ("bc1", "tb1") else "base58"
        viols.append(V("%s:%s:%s-wallet:%s-of-other-network" % (P, what, net, kind),
                       "%s of a %snet wallet contains %r (%d leaves of the other network)" % (what, net, wrong[0], len(wrong))))
    if tagged < min_tagged:
        viols.append(V("%s:%s:classifier:too-few-tagged" % (P, what), "%s: only %d network-tagged leaves (expected >= %d)" % (what, tagged, min_tagged)))
    return viols, tagged


def full_wallet(seed_hex, testnet):
    from btc_hd_wallet.paper_wallet import PaperWallet
    return PaperWallet.from_bip39_seed_hex(seed_hex, testnet)


def outputs_of(w, net, account, tag=""):
    """every network-tagged artefact of a full wallet -> viols, tagged count"""
    testnet = net == "test"
    viols, total = [], 0

    def add(obj, what, mn):
        nonlocal total
        vs, t = audit(obj, net, what, mn)
        for v in vs:
            v["msg"] = tag + v["msg"]
        viols.extend(vs)
        total += t

    st, data = attempt(w.generate, account, (0, 2))
    if st != "ok":
        viols.append(V(P + ":generate:raised", "generate raised %s" % data))
    else:
        data = dict(data)
        data.pop("BIP85", None)           # BIP85 defines its WIF/XPRV children as mainnet-encoded (owned by C12)
        add(data, "generate", 3 * (3 + 2 * 3))
    coin = 1 if testnet else 0
    other = 1 - coin
    # also paths that carry the OTHER network's coin type: the artefacts must still be tagged with the wallet's own network
    for path in ("m/44'/%d'/%d'/0/0" % (coin, account), "m/84'/%d'/0'" % coin, "m/49'/%d'/1'/1/5" % coin, "m/0/1", "m/7'", "m",
                 "m/44'/%d'/0'" % other, "m/84'/%d'/2'/1/9" % other, "m/0'/%d'" % other, "m/49'/%d'/%d'" % (other, account),
                 # purposes other than 44/49/84 that real wallets use (taproot, multisig, ...): plain BIP32 flavour, own network
                 "m/86'/%d'/0'" % coin, "m/86'/%d'/0'/0/3" % coin, "m/48'/%d'/0'/2'" % coin, "m/45'/0", "m/1'/%d'" % coin, "m/85'/0'"):
        st, node = attempt(w.by_path, path)
        if st != "ok":
            viols.append(V(P + ":by_path:raised", "by_path(%r) raised %s" % (path, node)))
            continue
        addrs = {}
        for kind in ("p2pkh", "p2wpkh", "p2sh_p2wpkh", "p2wsh", "p2sh_p2wsh"):
            addrs[kind] = getattr(w, kind + "_address")(node)
        add(list(addrs.values()), "addresses", 5)
        add({k: v for k, v in w.node_extended_keys(node).items() if k != "path"}, "node_extended_keys", 2)
        add([node.extended_public_key(), node.extended_private_key()], "node-default-version-keys", 2)
    # the remaining producers of network-tagged text: address generators (default and explicit address function), row groups,
    # key objects reached through a node (WIF / address with the node's own network flag)
    def more():
        out = {}
        n0 = w.by_path("m/84'/%d'/%d'/0" % (coin, account))
        g = w.address_generator(n0)
        out["address_generator(default)"] = [next(g)[1], g.send(2)[1], next(g)[1]]
        g2 = w.address_generator(n0, w.p2pkh_address)
        out["address_generator(p2pkh)"] = [next(g2)[1], next(g2)[1]]
        g3 = w.address_generator(node=n0, addr_fnc=w.p2sh_p2wpkh_address)
        out["address_generator(p2sh_p2wpkh)"] = [next(g3)[1]]
        kids_ = n0.generate_children((0, 2))
        out["group(p2wpkh)"] = [r[1] for r in w.group(kids_, w.p2wpkh_address)] + [r[-1] for r in w.group(kids_, w.p2wpkh_address)]
        out["bip44_group"] = [r[1] for r in w.bip44_group(kids_)] + [r[-1] for r in w.bip44_group(kids_)]
        out["bip49_group"] = [r[1] for r in w.bip49_group(kids_)]
        out["bip84_group"] = [r[1] for r in w.bip84_group(kids_)]
        k0 = kids_[0]
        out["node.private_key.wif(testnet=node.testnet)"] = [k0.private_key.wif(testnet=k0.testnet)]
        out["node.public_key.address(testnet=node.testnet)"] = [k0.public_key.address(testnet=k0.testnet), k0.public_key.address(testnet=k0.testnet, addr_type="p2wpkh")]
        out["child-of-child keys"] = [k0.ckd(1).extended_public_key(), k0.ckd(H + 1).extended_private_key()]
        return out
    def cloned():
        """duplicates of the wallet and of its nodes keep their network"""
        from .. import hdscen
        from btc_hd_wallet.base_wallet import BaseWallet
        out = {}
        for how, w2 in hdscen.clones(w):
            n2 = w2.by_path("m/84'/%d'/0'/0/1" % coin)
            out["%s(wallet)" % how] = [w2.p2wpkh_address(n2), w2.p2pkh_address(n2), n2.extended_public_key(), n2.extended_private_key(),
                                       json.loads(w2.wasabi_json())["ExtPubKey"], w2.master.extended_private_key()]
        acct = w.by_path("m/49'/%d'/2'" % coin)
        for how, c in hdscen.clones(acct):
            out["%s(node)" % how] = [c.extended_public_key(), c.extended_private_key(), c.ckd(0).extended_public_key(), c.private_key.wif(testnet=c.testnet)]
        for how, m2 in hdscen.clones(w.master):
            w3 = BaseWallet(master=m2, testnet=w.testnet)
            n3 = w3.by_path("m/44'/%d'/0'/0/0" % coin)
            out["wallet-over-%s(master)" % how] = [w3.p2pkh_address(n3), n3.extended_public_key(), w3.node_extended_keys(n3)["pub"], w3.node_extended_keys(n3)["prv"]]
        return out
    st, extra2 = attempt(cloned)
    if st != "ok":
        viols.append(V(P + ":clones:raised", "%s" % extra2))
    else:
        for what, vals in extra2.items():
            add(vals, what, len(vals))
    st, extra = attempt(more)
    if st != "ok":
        viols.append(V(P + ":generators-and-groups:raised", "%s" % extra))
    else:
        for what, vals in extra.items():
            add(vals, what, len(vals))
    st, wj = attempt(w.wasabi_json)
    if st == "ok":
        add(json.loads(wj)["ExtPubKey"], "wasabi_json", 1)
    else:
        viols.append(V(P + ":wasabi_json:raised", str(wj)))
    return viols, total


def chk_wallet(seed_i, net, account):
    w = full_wallet(SEEDS[seed_i], net == "test")
    if w.testnet != (net == "test"):
        return [V(P + ":wallet.testnet:flag:wrong", "wallet.testnet=%r for a %snet wallet" % (w.testnet, net))], 0
    return outputs_of(w, net, account)


def chk_reimport(seed_i, version, export):
    from btc_hd_wallet.paper_wallet import PaperWallet
    name, kind, net, bip = hd.SLIP132[version]
    m = hd.master(bytes.fromhex(SEEDS[seed_i]))
    node = hd.derive(m, export)
    s = hd.xprv(node, version) if kind == "prv" else hd.xpub(node, version)
    st, w = attempt(PaperWallet.from_extended_key, s)
    if st != "ok":
        return [V("%s:from_extended_key:%s:refused" % (P, name), "from_extended_key(%s...) raised %s" % (s[:12], w))], 0
    viols, total = [], 0
    if w.testnet != (net == "test"):
        return [V("%s:from_extended_key:%s:wrong-network" % (P, name), "wallet from %s reports testnet=%r" % (name, w.testnet))], 0
    tag = "wallet re-imported from %s at depth %d: " % (name, len(export))
    if kind == "prv":
        vs, t = outputs_of(w, net, 0, tag)
        for v in vs:
            v["key"] = v["key"].replace(P + ":", P + ":reimport(%s):" % name, 1)
        return vs, t
    mark = "M"
    objs = []
    for sub in ([], [0], [0, 1], [2**31 - 1]):
        n = w.master.derive_path(sub)
        objs.append([getattr(w, k + "_address")(n) for k in ("p2pkh", "p2wpkh", "p2sh_p2wpkh", "p2wsh", "p2sh_p2wsh")])
        objs.append(w.node_extended_keys(n)["pub"])
        objs.append(n.extended_public_key())
    vs, t = audit(objs, net, "reimport(%s):watch-only-outputs" % name, 4 * 7)
    for v in vs:
        v["msg"] = tag + v["msg"]
    return vs, t


HIST_OPS = [[net, req] for net in ("main", "test") for req in ("keys84", "keys49t", "addr", "wasabi", "gen")]


def _ev_op(i):
    # irregular network pattern, and every third request asks for the public key only, so that entries of one network do not
    # line up with the slots of a ring of even size
    net = "test" if (i * 7 // 3) % 2 else "main"
    return [net, "pubN" if i % 3 == 0 else "keysN", i]


class TwoWalletHistories:
    """requests alternate between a mainnet and a testnet wallet of the same seed inside one process. canon = the history."""

    def ops(self, hist):
        return HIST_OPS

    def run(self, hist):
        ws = {"main": full_wallet(SEEDS[0], False), "test": full_wallet(SEEDS[0], True)}
        viols, label = [], "init"
        for n, op in enumerate(hist):
            net, req = op[0], op[1]
            w = ws[net]
            if req == "keysN":
                obj, mn = {k: v for k, v in w.node_extended_keys(w.by_path("m/%d'/0'/%d'" % ((44, 49, 84)[op[2] % 3], op[2]))).items() if k != "path"}, 2
            elif req == "pubN":
                obj, mn = w.node_extended_public_key(w.by_path("m/%d'/0'/%d'" % ((44, 49, 84)[op[2] % 3], op[2]))), 1
            elif req == "keys84":
                obj, mn = {k: v for k, v in w.node_extended_keys(w.by_path("m/84'/0'/0'")).items() if k != "path"}, 2
            elif req == "keys49t":
                obj, mn = {k: v for k, v in w.node_extended_keys(w.by_path("m/49'/1'/0'")).items() if k != "path"}, 2
            elif req == "addr":
                node = w.by_path("m/0/1")
                obj, mn = [getattr(w, k + "_address")(node) for k in ("p2pkh", "p2wpkh", "p2sh_p2wpkh", "p2wsh", "p2sh_p2wsh")], 5
            elif req == "wasabi":
                obj, mn = json.loads(w.wasabi_json())["ExtPubKey"], 1
            else:
                d = dict(w.generate(0, (0, 1)))
                d.pop("BIP85", None)
                obj, mn = d, 12
            if n == len(hist) - 1:
                viols, _ = audit(obj, net, "history:" + req, mn)
                for v in viols:
                    v["msg"] = "after %r in the same process: %s" % (hist[:-1], v["msg"])
                label = "violation" if viols else "tags-ok"
        return {"canon": hist, "viols": viols, "label": label}


def execute(case):
    if "hist" in case:
        r = isolated(TwoWalletHistories().run, case["hist"])
        for v in r["viols"]:
            v["case"] = case
        return R(r["label"], viols=r["viols"])
    if case["k"] == "wallet":
        vs, t = chk_wallet(case["seed"], case["net"], case["account"])
    else:
        vs, t = chk_reimport(case["seed"], case["version"], case["export"])
    return R("violation" if vs else "all-tagged-leaves-on-own-network", nontrivial=t > 0, viols=vs, extra=t)


def replay(case):
    return execute(case)["v"]


def run(ctx):
    ns = 5 if ctx.thorough else 3
    cases = [{"k": "wallet", "seed": s, "net": net, "account": a} for s in range(ns) for net in ("main", "test") for a in (0, 1, H - 2, 84, 49)]
    agg = ctx.product("full-wallet-outputs", cases, execute, chunk=1)
    tagged = sum(agg["x"])
    exports = [[], [H + 44, H + 1, H], [0]]
    cases = [{"k": "reimport", "seed": s, "version": v, "export": e} for s in range(2 if not ctx.thorough else 4) for v in sorted(hd.SLIP132) for e in exports]
    agg = ctx.product("reimport-12-versions", cases, execute, chunk=1)
    tagged += sum(agg["x"])
    bfs(ctx, "two-wallet-histories", TwoWalletHistories(), 3 if ctx.thorough else 2, chunk=2)
    from ..bfs import long_histories
    long_histories(ctx, "two-wallet-histories+long", TwoWalletHistories(), rotations=5 if ctx.thorough else 2, rounds=1, chunk=1)
    from ..bfs import eviction_probe
    eviction_probe(ctx, "two-wallet-histories+revisits", TwoWalletHistories(), _ev_op, sizes=(1, 2, 3, 4, 5, 8, 9, 16, 17, 32, 33, 64, 65))
    return {"tagged_leaves_checked": tagged}
