"""C19 - script and varint wire encodings round-trip with standard minimal pushes."""
import itertools
from io import BytesIO

from ..core import attempt, V, R, isolated
from ..ref import hd

LEVEL = "exploration"
P = "C19"
RULE = ("complete enumeration: every element length 0..521 as a one-element script, every non-push opcode byte, every "
        "sequence of <=3 items over 9 boundary lengths + 7 opcodes, every strict prefix of every 1- and 2-item "
        "(thorough 3-item) serialisation, every byte string of length <=5 over an 11-symbol alphabet as parser input, "
        "every varint value 0..70000 plus 2^k-1,2^k,2^k+1 for k<=70 and every strict prefix of every multi-byte varint "
        "used as a script length prefix; non-trivial = the implementation's bytes / parse result / refusal was compared "
        "with the reference wire format; distinct by construction"
        "; every accepted parse is re-serialised and must give the standard minimal pushes (explicit non-minimal PUSHDATA1/2 framings of the boundary lengths)")

LENS = [1, 2, 75, 76, 77, 255, 256, 257, 520]
OPS = [0x00, 0x4f, 0x51, 0x76, 0xa9, 0xac, 0xff]
ITEMS = [("d", n) for n in LENS] + [("o", o) for o in OPS]
PARSE_ALPHA = [0x00, 0x01, 0x02, 0x4b, 0x4c, 0x4d, 0x4e, 0x51, 0xfd, 0xfe, 0xff]


def _mk(items, salt=0):
    cmds = []
    for j, (t, v) in enumerate(items):
        if t == "o":
            cmds.append(v)
        elif t == "x":
            cmds.append(bytes.fromhex(v))
        elif t == "f":        # filler element of length v made of one repeated byte
            cmds.append(bytes([0x5a]) * v)
        else:
            cmds.append(bytes(((i * 7 + j * 13 + salt) % 251) + 1 for i in range(v)))
    return cmds


def _script():
    from btc_hd_wallet.script import Script
    return Script


def lenclass(n):
    return "len=%d" % n if n in (0, 75, 76, 255, 256, 520, 521) else (
        "len1-74" if n < 75 else "len77-254" if n < 255 else "len257-519" if n < 520 else "len>521")


def total_length_items(total):
    """elements (each <= 520 bytes, PUSHDATA2 framing = +3) whose raw serialisation is exactly `total` bytes"""
    items, left = [], total
    while left > 523 + 4:
        items.append(("f", 520))
        left -= 523
    # finish with one or two elements; left in 4..527
    if left <= 76:
        items.append(("f", left - 1))            # bare length byte
    elif left <= 257:
        items.append(("f", left - 2))            # PUSHDATA1
    elif left <= 523:
        items.append(("f", left - 3))            # PUSHDATA2
    else:
        items += [("f", 300), ("f", left - 303 - 3)]
    return items


def chk_roundtrip(items, salt=0):
    Script = _script()
    cmds = _mk(items, salt)
    desc = "+".join("%s%s" % (t, v) for t, v in items)[:120]
    items = [("d", len(bytes.fromhex(v))) if t == "x" else ("d", v) if t == "f" else (t, v) for t, v in items]
    bad = [v for t, v in items if t == "d" and not (1 <= v <= 520)]
    st, raw = attempt(lambda: Script(list(cmds)).raw_serialize())
    if any(v > 520 for v in bad):
        if st == "ok":
            return "accepted-oversize", [V(P + ":raw_serialize:len>520:accepted", "element over 520 bytes serialised: " + desc)]
        return "refused-oversize", []
    if bad:  # zero-length element: outside the property's quantifier (1-520); observed only
        return "observed-empty-element:" + st, []
    dl = [v for t, v in items if t == "d"]
    cls = "len=75" if 75 in dl else lenclass(max(dl, default=1))
    if st != "ok":
        return "violation", [V("%s:raw_serialize:%s:refused" % (P, cls), "raw_serialize refused legal script %s: %s" % (desc, raw),
                               raw, "bytes")]
    exp = hd.script_raw(cmds)
    if raw != exp:
        return "violation", [V("%s:raw_serialize:%s:wrong-bytes" % (P, cls), "wire bytes of " + desc, raw[:12].hex(), exp[:12].hex())]
    st, ser = attempt(lambda: Script(list(cmds)).serialize())
    if st != "ok" or ser != hd.varint(len(exp)) + exp:
        return "violation", [V("%s:serialize:%s:wrong-bytes" % (P, cls), "serialize of " + desc,
                               ser[:12].hex() if st == "ok" else ser, (hd.varint(len(exp)) + exp)[:12].hex())]
    buf = BytesIO(ser)
    st, sc = attempt(Script.parse, buf)
    if st != "ok":
        return "violation", [V("%s:Script.parse:%s:valid-refused" % (P, cls), "parse(serialize(%s)) raised %s" % (desc, sc))]
    if list(sc.cmds) != list(cmds) or not (sc == Script(list(cmds))) or buf.tell() != len(ser):
        return "violation", [V("%s:Script.parse:%s:roundtrip" % (P, cls), "parse(serialize(%s)) differs / consumed %d of %d" % (
            desc, buf.tell(), len(ser)))]
    return "roundtrip-ok", []


def chk_parse_bytes(b, origin):
    """Whenever parse returns, the reference parser must accept the same bytes with the same commands."""
    Script = _script()
    buf = BytesIO(b)
    st, sc = attempt(Script.parse, buf)
    try:
        rcmds, rpos = hd.script_parse(b)
        ref_ok = True
    except ValueError:
        ref_ok = False
    if st != "ok":
        if ref_ok and origin == "arbitrary":
            try:
                body_start = hd.read_varint(b)[1]
                # canonical = the shortest length prefix AND minimal pushes (a longer-than-necessary prefix may be refused)
                canonical = hd.varint(rpos - body_start) + hd.script_raw(rcmds) == b[:rpos]
            except ValueError:
                canonical = False
            if canonical and all(not isinstance(c, bytes) or 1 <= len(c) <= 520 for c in rcmds) and \
                    all(isinstance(c, bytes) or c == 0 or c >= 78 for c in rcmds):
                return "violation", [V(P + ":Script.parse:canonical:valid-refused", "canonical serialisation %s refused: %s" % (b.hex(), sc))]
            return "impl-stricter", []
        return "refused", []
    if not ref_ok:
        cls = "short-read" if origin != "arbitrary" or _is_short(b) else "malformed"
        return "violation", [V("%s:Script.parse:%s:accepted" % (P, cls),
                               "parse accepted %s (%s) as %r although the bytes end early / overrun the declared length" % (
                                   b[:24].hex(), origin, [c.hex() if isinstance(c, bytes) else c for c in sc.cmds][:4]))]
    if list(sc.cmds) != list(rcmds) or buf.tell() != rpos:
        return "violation", [V(P + ":Script.parse:accepted:wrong-commands", "parse(%s) cmds/consumed differ from reference" % b[:24].hex(),
                               [c.hex() if isinstance(c, bytes) else c for c in sc.cmds][:4],
                               [c.hex() if isinstance(c, bytes) else c for c in rcmds][:4])]
    # a script obtained by PARSING is a script like any other: serialising it must give the standard minimal pushes, whatever
    # framing the parsed bytes used (PUSHDATA1/2 for a short element is legal input, not legal output)
    if all(not isinstance(c, bytes) or 1 <= len(c) <= 520 for c in rcmds):
        exp = hd.script_raw(rcmds)
        st2, raw = attempt(sc.raw_serialize)
        if st2 != "ok" or raw != exp:
            minimal = exp == b[hd.read_varint(b)[1]:rpos]
            return "violation", [V("%s:parse-then-serialize:%s:wrong-bytes" % (P, "minimal-input" if minimal else "non-minimal-input"),
                                   "raw_serialize() of the script parsed from %s" % b[:24].hex(), raw[:16].hex() if st2 == "ok" else raw, exp[:16].hex())]
        st2, ser = attempt(sc.serialize)
        if st2 != "ok" or ser != hd.varint(len(exp)) + exp:
            return "violation", [V(P + ":parse-then-serialize:serialize:wrong-bytes", "serialize() of the script parsed from %s" % b[:24].hex(),
                                   ser[:16].hex() if st2 == "ok" else ser, (hd.varint(len(exp)) + exp)[:16].hex())]
        return "accepted-agree+reserialised", []
    return "accepted-agree", []


def _is_short(b):
    try:
        length, pos = hd.read_varint(b)
    except ValueError:
        return True
    return pos + length > len(b)


def chk_varint(v):
    from btc_hd_wallet import helper
    st, e = attempt(helper.encode_varint, v)
    if v >= 2**64:
        if st == "ok":
            return "violation", [V(P + ":encode_varint:>=2^64:accepted", "encode_varint(%d) returned %s" % (v, e.hex()))]
        return "refused-large", []
    exp = hd.varint(v)
    if st != "ok" or e != exp:
        return "violation", [V(P + ":encode_varint:<2^64:wrong-bytes", "encode_varint(%d)" % v, e.hex() if st == "ok" else e, exp.hex())]
    buf = BytesIO(e + b"\xaa")
    st, r = attempt(helper.read_varint, buf)
    if st != "ok" or r != v or buf.tell() != len(e):
        return "violation", [V(P + ":read_varint:<2^64:roundtrip", "read_varint(encode(%d)) -> %r, consumed %d" % (v, r, buf.tell()))]
    return "varint-ok-%d" % len(e), []


D20, D20B, D76, D75 = b"\x11" * 20, b"\x22" * 20, b"\x33" * 76, b"\x44" * 75
HIST_OPS = [["ser"], ["raw"], ["set", 2, "D20B"], ["set", 2, "D76"], ["set", 0, 0x51], ["append", "D75"], ["append", 0x51], ["pop"]]
_ITEMS = {"D20B": D20B, "D76": D76, "D75": D75}


def _mutate(Script, sc, model, inplace):
    """change the commands of a script in place where the class allows it; a class with immutable commands gets a NEW script
    with the changed commands instead (in-place mutability is not part of the property)"""
    st, _ = attempt(lambda: inplace(sc.cmds))
    if st == "ok":
        return sc
    return Script(list(model))


class ScriptObjectHistories:
    """operations on ONE Script object (serialise, mutate cmds in place, serialise again ...): every serialisation must be
    the wire form of the script's CURRENT commands. canon = the history (instance-level caches are unobservable)."""

    def ops(self, hist):
        return HIST_OPS

    def run(self, hist):
        Script = _script()
        cmds = [0x76, 0xa9, D20, 0x88, 0xac]
        sc = Script(cmds)
        model = list(cmds)
        viols, label = [], "init"
        for n, op in enumerate(hist):
            last = n == len(hist) - 1
            if op[0] in ("ser", "raw"):
                st, b = attempt(sc.serialize if op[0] == "ser" else sc.raw_serialize)
                exp = hd.script_raw(model)
                if op[0] == "ser":
                    exp = hd.varint(len(exp)) + exp
                if last:
                    label = "serialisation-current"
                    if st != "ok" or b != exp:
                        label = "violation"
                        viols.append(V(P + ":serialize:history:stale-or-wrong-bytes",
                                       "after %r on the same Script object, %s() does not give the wire form of the current commands" % (
                                           hist[:-1], "serialize" if op[0] == "ser" else "raw_serialize"),
                                       b[:16].hex() if st == "ok" else b, exp[:16].hex()))
                    else:
                        buf = BytesIO(hd.varint(len(hd.script_raw(model))) + hd.script_raw(model))
                        st, back = attempt(Script.parse, buf)
                        if st != "ok" or not (back == sc):
                            label = "violation"
                            viols.append(V(P + ":Script.parse:history:roundtrip", "after %r parse(serialize()) != script" % (hist,)))
            elif op[0] == "set":
                item = _ITEMS.get(op[2], op[2])
                if op[1] < len(model):
                    model[op[1]] = item
                    sc = _mutate(Script, sc, model, lambda c: c.__setitem__(op[1], item))
                label = "mutated"
            elif op[0] == "append":
                item = _ITEMS.get(op[1], op[1])
                model.append(item)
                sc = _mutate(Script, sc, model, lambda c: c.append(item))
                label = "mutated"
            elif op[0] == "pop":
                if model:
                    model.pop()
                    sc = _mutate(Script, sc, model, lambda c: c.pop())
                label = "mutated"
        return {"canon": hist, "viols": viols, "label": label}


def _ev_value(i):
    return [0xfc, 0xfd, 0xffff, 0x10000][i % 4] + 5 * (i // 4) if i % 2 else 1000 + 37 * i


def execute(case):
    k = case.get("k")
    if "hist" in case and case.get("layer") == "varint-and-script-revisits":
        from ..bfs import PureCalls
        r = isolated(PureCalls(10**6, lambda i: chk_varint(_ev_value(i))[1] + chk_roundtrip([("f", 1 + (i * 7) % 500)])[1], P).run, case["hist"])
        for v in r["viols"]:
            v["case"] = case
        return R(r["label"], viols=r["viols"])
    if "hist" in case:
        r = isolated(ScriptObjectHistories().run, case["hist"])
        for v in r["viols"]:
            v["case"] = case
        return R(r["label"], viols=r["viols"])
    outcomes, viols, n = {}, [], 0

    def acc(res, single):
        nonlocal n
        n += 1
        o, vs = res
        outcomes[o] = outcomes.get(o, 0) + 1
        for v in vs:
            v["case"] = single
            viols.append(v)

    if k == "rt":
        acc(chk_roundtrip([tuple(i) for i in case["items"]], case.get("salt", 0)), case)
    elif k == "prefixes":
        items = [tuple(i) for i in case["items"]]
        ser = hd.varint(len(hd.script_raw(_mk(items)))) + hd.script_raw(_mk(items))
        for cut in range(len(ser)):
            acc(chk_parse_bytes(ser[:cut], "prefix"), {"k": "parse", "hex": ser[:cut].hex(), "origin": "prefix"})
    elif k == "parse":
        acc(chk_parse_bytes(bytes.fromhex(case["hex"]), case.get("origin", "arbitrary")), case)
    elif k == "parse_block":
        pre = bytes(case["prefix"])
        for tail in itertools.product(PARSE_ALPHA, repeat=case["len"] - len(pre)):
            b = pre + bytes(tail)
            acc(chk_parse_bytes(b, "arbitrary"), {"k": "parse", "hex": b.hex(), "origin": "arbitrary"})
    elif k == "varint":
        acc(chk_varint(case["v"]), case)
    elif k == "varint_block":
        for v in range(case["lo"], case["hi"]):
            acc(chk_varint(v), {"k": "varint", "v": v})
    elif k == "varint_prefix":
        # truncated multi-byte varint used as the script length prefix: parse must refuse
        e = hd.varint(case["v"])
        for cut in range(1, len(e)):
            acc(chk_parse_bytes(e[:cut], "truncated-varint"), {"k": "parse", "hex": e[:cut].hex(), "origin": "truncated-varint"})
    else:
        raise ValueError(k)
    return R(outcomes, viols=viols, n=n)


def replay(case):
    return execute(case)["v"]


def run(ctx):
    salt = ctx.seed % 97
    cases = [{"k": "rt", "items": [("d", n)], "salt": salt} for n in range(0, 522)]
    cases += [{"k": "rt", "items": [("o", o)]} for o in [0] + list(range(78, 256))]
    ctx.product("single-item", cases, execute)
    # element CONTENT: every value of a 1-byte element, boundary values in 2-byte elements (data must never be re-read as opcodes)
    bvals = [0x00, 0x01, 0x10, 0x11, 0x4b, 0x4c, 0x4d, 0x4e, 0x4f, 0x50, 0x51, 0x60, 0x61, 0x7f, 0x80, 0x81, 0xff]
    cases = [{"k": "rt", "items": [("x", "%02x" % b)]} for b in range(256)]
    cases += [{"k": "rt", "items": [("x", "%02x%02x" % (a, b))]} for a in bvals for b in bvals]
    cases += [{"k": "rt", "items": [("o", 0x51), ("x", "%02x" % b), ("o", 0xac)]} for b in bvals]
    ctx.product("element-content", cases, execute)
    # total script lengths around the varint boundaries of the length prefix
    totals = [251, 252, 253, 254, 255, 256, 65534, 65535, 65536, 65537] + ([70000, 131071] if ctx.thorough else [])
    ctx.product("total-length-varint-boundaries", [{"k": "rt", "items": total_length_items(t)} for t in totals], execute, parallel=False)
    seqs = [list(s) for r in (1, 2, 3) for s in itertools.product(ITEMS, repeat=r)]
    ctx.product("sequences<=3", [{"k": "rt", "items": s, "salt": salt} for s in seqs], execute)
    pre = [s for s in seqs if len(s) <= (3 if ctx.thorough else 2)]
    ctx.product("strict-prefixes", [{"k": "prefixes", "items": s} for s in pre], execute, chunk=4)
    cases = [{"k": "parse_block", "prefix": [], "len": 0}, {"k": "parse_block", "prefix": [], "len": 1},
             {"k": "parse_block", "prefix": [], "len": 2}]
    cases += [{"k": "parse_block", "prefix": [a], "len": 3} for a in PARSE_ALPHA]
    cases += [{"k": "parse_block", "prefix": [a, b], "len": L} for a in PARSE_ALPHA for b in PARSE_ALPHA for L in (4, 5)]
    if ctx.thorough:
        cases += [{"k": "parse_block", "prefix": [a, b], "len": 6} for a in PARSE_ALPHA for b in PARSE_ALPHA]
    ctx.product("arbitrary-parser-input", cases, execute, chunk=4)
    # non-minimal framings of every boundary length (accepted or refused - but never re-emitted)
    cases = []
    for n in (1, 2, 74, 75, 76, 255):
        body = bytes((i * 7 + salt) % 256 for i in range(n))
        for framed in (b"\x4c" + bytes([n]) + body, b"\x4d" + n.to_bytes(2, "little") + body):
            for tail in (b"", b"\xac", b"\x01\x07"):
                raw = framed + tail
                cases.append({"k": "parse", "hex": (hd.varint(len(raw)) + raw).hex(), "origin": "arbitrary"})
    ctx.product("non-minimal-framings", cases, execute)
    cases = [{"k": "varint_block", "lo": lo, "hi": min(lo + 1000, 70001)} for lo in range(0, 70001, 1000)]
    edge = set()
    for kk in range(0, 71):
        edge.update({2**kk - 1, 2**kk, 2**kk + 1})
    edge.update({0xfc, 0xfd, 0xfffe, 0xffff, 0x10000, 0xffffffff, 2**64 - 1, 2**64, 2**64 + 1})
    r = ctx.rng("varint")
    edge.update(r.randrange(2**b) for b in (16, 24, 32, 40, 56, 64) for _ in range(4))
    cases += [{"k": "varint", "v": v} for v in sorted(edge)]
    ctx.product("varints", cases, execute)
    ctx.product("truncated-varint-prefix", [{"k": "varint_prefix", "v": v} for v in (0xfd, 0x100, 0xffff, 0x10000, 0x01000000,
                                                                                  2**32, 2**40, 2**63)], execute, parallel=False)
    from ..bfs import bfs
    bfs(ctx, "script-object-histories", ScriptObjectHistories(), 4 if ctx.thorough else 3)
    from ..bfs import long_histories, eviction_probe, PureCalls
    evm = PureCalls(10**6, lambda i: chk_varint(_ev_value(i))[1] + chk_roundtrip([("f", 1 + (i * 7) % 500)])[1], P)
    eviction_probe(ctx, "varint-and-script-revisits", evm, lambda i: i)
    long_histories(ctx, "script-object-histories+long", ScriptObjectHistories(), rotations=8 if ctx.thorough else 4, rounds=3)
    return {}
