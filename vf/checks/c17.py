"""C17 - path strings are honoured component by component or rejected."""
import itertools

from ..core import attempt, V, R, isolated
from ..ref import hd
from .. import hdscen

LEVEL = "exploration"
P = "C17"
H = hd.H
IDX = [0, 1, H - 1, H, H + 1, 2**32 - 1]
SUB = [0, 1, H, H - 1]
RULE = ("all 9,331 index lists of length 0..5 over {0,1,2^31-1,2^31,2^31+1,2^32-1} x roots {m,M} x markers {', h, alternating} "
        "for format/parse identity; by_path vs the reference derivation for all lists of length<=3 (thorough <=5) over "
        "{0,1,2^31,2^31-1} on a private and a watch-only wallet; a single-fault grammar (19 fault tokens incl. negative/oversized "
        "numbers with and without marker, junk, empty inner token) applied at every component position of 4 base paths, 7 wrong "
        "roots; all paths of 6..12 levels over {0,1'} (2^6+..; quick: 6..8 complete, 9..12 two per depth). "
        "non-trivial = the implementation's answer (string, list, node or refusal) was compared with the reference grammar / "
        "reference derivation; distinct by construction"
        "; BIP85 entropy(path) for all lists of length<=3; intermediate-corner classes (vf/corners.py) for key/chain code at the first of three levels and child x on the watch-only side")

FAULTS = ["-1", "-1'", "-1h", "-2147483648'", "-2147483647'", "-2147483649'", "4294967296", "2147483648'", "4294967295h", "4294967296'",
          "x", "0x1f", "0b1", "1.0", "1e3", "1''", "1'h", "'", "h", "None", ""]
LENIENT = ["+1", " 1", "1 ", "1_0", "١", "01", "+1'", "1 '"]
BASES = ["m/0/1'/2", "m/44'/0'/0'/0/5", "M/0/1", "m/1", "m/0/1'/2/3/4/5/6'", "M/0/1/2/3/4/5"]
ROOTS_BAD = ["", "x", "n", "mm", "m'", "/m", "m ", " m", "m0", "M0", "m44'", "mM", "Mm", "m.", "m\t"]

MASTER = {"k": 0x1F1E1D1C1B1A191817161514131211100F0E0D0C0B0A09080706050403020100 % hd.N, "chain": "5a" * 32}


def wallet(pub=False, testnet=False):
    from btc_hd_wallet.base_wallet import BaseWallet
    return BaseWallet.from_extended_key(hdscen.root_xkey(dict(MASTER, pub=pub, testnet=testnet)))


def fmt(lst, root, marker):
    out = [root]
    for j, i in enumerate(lst):
        if i >= H:
            m = "'" if marker == "'" else "h" if marker == "h" else ("'" if j % 2 == 0 else "h")
            out.append(str(i - H) + m)
        else:
            out.append(str(i))
    return "/".join(out)


def chk_format(lst, root):
    from btc_hd_wallet.wallet_utils import Bip32Path
    names = ["purpose", "coin_type", "account", "chain", "addr_index"]
    kw = dict(zip(names, lst))
    st, p = attempt(lambda: Bip32Path(private=(root == "m"), **kw))
    if st != "ok":
        return "violation", [V(P + ":Bip32Path:levels<=5:refused", "Bip32Path(%r) raised %s" % (lst, p))]
    exp = hd.path_str(lst, root)
    s = str(p)
    if s != exp:
        return "violation", [V(P + ":Bip32Path.__str__:levels<=5:wrong-string", "str(Bip32Path(%r))" % lst, s, exp)]
    if p.to_list() != list(lst):
        return "violation", [V(P + ":Bip32Path.to_list:levels<=5:wrong-list", "to_list of %r" % lst, p.to_list(), list(lst))]
    for marker in ("'", "h", "alt"):
        text = fmt(lst, root, marker)
        st, q = attempt(Bip32Path.parse, text)
        if st != "ok":
            return "violation", [V(P + ":Bip32Path.parse:levels<=5:refused", "parse(%r) raised %s" % (text, q))]
        if q.to_list() != list(lst) or not (q == p) or str(q) != exp or q.m != root:
            return "violation", [V(P + ":Bip32Path.parse:levels<=5:not-identity", "parse(%r) -> %s / %r" % (text, q, q.to_list()), str(q), exp)]
    return "identity-ok", []


def chk_by_path(lst, pub, marker):
    root = "M" if pub else "m"
    text = fmt(lst, root, marker)
    w = wallet(pub)
    st, n = attempt(lambda: w.by_path(text))
    refroot = hdscen.ref_root(dict(MASTER, pub=pub))
    hardened = any(i >= H for i in lst)
    if pub and hardened:
        if st == "ok":
            return "violation", [V(P + ":by_path:hardened-from-public:derived", "watch-only by_path(%r) returned %s" % (text, n))]
        return "refused-hardened-public", []
    exp = hd.derive(refroot, lst)
    if st != "ok":
        return "violation", [V(P + ":by_path:levels<=5:refused", "by_path(%r) raised %s" % (text, n))]
    got = hdscen.canon_impl_node(n)
    if got != hdscen.canon_ref_node(exp):
        return "violation", [V(P + ":by_path:levels<=5:wrong-node", "by_path(%r)" % text, got, hdscen.canon_ref_node(exp))]
    # component-by-component on the implementation itself
    node = wallet(pub).master
    for i in lst:
        node = node.ckd(i)
    if hdscen.canon_impl_node(node) != got:
        return "violation", [V(P + ":by_path:levels<=5:differs-from-iterated-ckd", "by_path(%r) vs iterated ckd" % text)]
    if str(n) != hd.path_str(lst, root):
        return "violation", [V(P + ":str(node):levels<=5:wrong-string", "str(by_path(%r))" % text, str(n), hd.path_str(lst, root))]
    return "node-ok-depth%d" % len(lst), []


def chk_bip85_entropy(lst, marker):
    """the path-string entry point of BIP85: entropy(path) must use the key at EXACTLY the components written"""
    from ..ref import enc
    text = fmt(lst, "m", marker)
    w = wallet(False)
    st, e = attempt(lambda: w.bip85.entropy(text))
    node = hd.derive(hdscen.ref_root(MASTER), lst)
    exp = enc.hmac_sha512(b"bip-entropy-from-k", node.k.to_bytes(32, "big"))
    if st != "ok":
        return "violation", [V(P + ":bip85.entropy:levels<=5:refused", "bip85.entropy(%r) raised %s" % (text, e))]
    if bytes(e) != exp:
        others = {}
        for alt in itertools.product(*[(i, i ^ H) for i in lst]):
            n2 = hd.derive(hdscen.ref_root(MASTER), list(alt))
            others[enc.hmac_sha512(b"bip-entropy-from-k", n2.k.to_bytes(32, "big"))] = alt
        hint = " (it is the entropy of %s)" % hd.path_str(list(others[bytes(e)])) if bytes(e) in others else ""
        return "violation", [V(P + ":bip85.entropy:levels<=5:other-key", "bip85.entropy(%r) is not the entropy of the key at that path%s" % (text, hint),
                               bytes(e).hex()[:32], exp.hex()[:32])]
    return "entropy-of-written-path", []


def classify_malformed(text):
    """reference grammar: root ("/" dec ["'"|"h"])* with range rules. -> None if well-formed, else fault class"""
    parts = text.split("/")
    if parts[0] not in ("m", "M"):
        return "wrong-root"
    for t in parts[1:]:
        if t == "":
            return "empty-token"
        marked = t[-1] in "'h"
        num = t[:-1] if marked else t
        neg = num.startswith("-")
        digits = num[1:] if neg else num
        if not (digits.isascii() and digits.isdigit()):
            return "junk"
        v = -int(digits) if neg else int(digits)
        if marked and not (0 <= v < H):
            return "marked-negative" if v < 0 else "marked-oversized"
        if not marked and not (0 <= v < 2**32):
            return "negative" if v < 0 else "oversized"
    return None


def chk_malformed(text, origin):
    from btc_hd_wallet.wallet_utils import Bip32Path
    cls = classify_malformed(text)
    if cls is None:
        return "skipped-wellformed", []
    if cls == "empty-token" and text.endswith("/") and "//" not in text:
        cls = "trailing-slash"
    stp, p = attempt(Bip32Path.parse, text)
    results = []
    for pub in (False, True):
        w = wallet(pub)
        st, n = attempt(lambda: w.by_path(text))
        results.append((pub, st, n))
    derived = [(pub, n) for pub, st, n in results if st == "ok"]
    if cls == "wrong-root" and text.split("/")[0].strip() in ("m", "M") and classify_malformed(text.strip()) is None:
        # white space around an otherwise well-formed path: refusing is fine, and so is reading it as the stripped path - but
        # then it has to BE that path
        lst = hdscen.parse_path(text.strip())
        for pub, n in derived:
            if any(i >= H for i in lst) and pub:
                return "violation", [V("%s:by_path:padded-root:hardened-from-public" % P, "by_path(%r) on a watch-only wallet returned %s" % (text, n))]
            exp = hdscen.canon_ref_node(hd.derive(hdscen.ref_root(dict(MASTER, pub=pub)), lst))
            if hdscen.canon_impl_node(n) != exp:
                return "violation", [V("%s:by_path:padded-root:derived-other-key" % P, "by_path(%r) is neither refused nor the node of the stripped path" % text,
                                       hdscen.canon_impl_node(n), exp)]
        return "not-judged-padded-root:%s" % ("derived-stripped-path" if derived else "refused"), []
    if origin == "lenient" or cls == "trailing-slash":
        return "not-judged-%s:%s" % (cls, "derived" if derived else "refused"), []
    if derived:
        pub, n = derived[0]
        return "violation", [V("%s:by_path:%s:derived-other-key" % (P, cls),
                               "by_path(%r) on a %s wallet returned node %s (depth %d, index %d) instead of raising" % (
                                   text, "watch-only" if pub else "full", n, n.depth, n.index))]
    return ("refused-at-parse" if stp != "ok" else "deferred-rejection"), []


def chk_deep(lst):
    from btc_hd_wallet.wallet_utils import Bip32Path
    viols = []
    text = fmt(lst, "m", "'")
    w = wallet(False)
    st, n = attempt(lambda: w.by_path(text))
    oc = "deep-refused"
    if st == "ok":
        exp = hd.derive(hdscen.ref_root(MASTER), lst)
        if n.depth != len(lst):
            viols.append(V(P + ":by_path:levels>5:truncated", "by_path(%r) returned the depth-%d node %s instead of depth %d" % (
                text, n.depth, n, len(lst))))
        elif hdscen.canon_impl_node(n) != hdscen.canon_ref_node(exp):
            viols.append(V(P + ":by_path:levels>5:wrong-node", "by_path(%r)" % text))
        else:
            oc = "deep-honoured"
    st, p = attempt(Bip32Path.parse, text)
    if st == "ok":
        if p.to_list() != list(lst):
            viols.append(V(P + ":Bip32Path.parse:levels>5:truncated", "Bip32Path.parse(%r) -> %s (levels beyond the fifth dropped)" % (text, p)))
    if not all(i >= H for i in lst[:0]):
        pass
    # watch-only wallet with the non-hardened twin of the path
    lst2 = [i - H if i >= H else i for i in lst]
    text2 = fmt(lst2, "M", "'")
    st, n = attempt(lambda: wallet(True).by_path(text2))
    if st == "ok":
        exp = hd.derive(hdscen.ref_root(dict(MASTER, pub=True)), lst2)
        if n.depth != len(lst2):
            viols.append(V(P + ":by_path:levels>5:truncated", "watch-only by_path(%r) returned depth %d" % (text2, n.depth)))
        elif hdscen.canon_impl_node(n) != hdscen.canon_ref_node(exp):
            viols.append(V(P + ":by_path:levels>5:wrong-node", "watch-only by_path(%r)" % text2))
    return ("violation" if viols else oc), viols


HIST_ALPHA = ["m/0/1/2/3/4", "m/0/1/2/3/4/5", "m/0/1/2/3/4/6", "m/0/1/2/3/4/x", "m/0/1/2/3/4//6", "m/0/1/2/3/4/-1",
              "m/0/1/2/3", "m/0/1'/2", "m/0/1/2/3/4/5/6", "m/0/1/2/3/5", "m/0/1/2/3/4/5'", "M/0/1/2/3/4/5",
              # requests that fail HALF-WAY (an inner component out of range), and their well-formed neighbours
              "m/0/2", "m/0/4294967296/2", "m/0/4294967296/3", "m/0/1/4294967296'/4", "m/0/4294967296/2"]


class ByPathHistories:
    """sequences of by_path calls on ONE wallet object; every call must answer as a fresh wallet would.
    canon = the history itself (no merging: hidden per-wallet caches cannot be observed, so nothing is assumed equal)."""

    def ops(self, hist):
        return HIST_ALPHA

    def run(self, hist):
        w = wallet(False)
        res = None
        for p in hist:
            res = attempt(lambda: w.by_path(p))
        viols, label = [], "init"
        if hist:
            p = hist[-1]
            st, n = res
            cls = classify_malformed(p)
            if cls is not None:
                label = "refused-malformed" if st != "ok" else "violation"
                if st == "ok":
                    viols.append(V("%s:by_path:history:%s:derived-other-key" % (P, cls),
                                   "after by_path calls %r on the same wallet, by_path(%r) returned %s instead of raising" % (hist[:-1], p, n)))
            else:
                lst = hdscen.parse_path(p)
                exp = hdscen.canon_ref_node(hd.derive(hdscen.ref_root(MASTER), lst))
                if st != "ok":
                    label = "refused-deep" if len(lst) > 5 else "violation"
                    if len(lst) <= 5:
                        viols.append(V(P + ":by_path:history:levels<=5:refused", "after %r, by_path(%r) raised %s" % (hist[:-1], p, n)))
                elif hdscen.canon_impl_node(n) != exp:
                    label = "violation"
                    viols.append(V(P + ":by_path:history:wrong-node", "after by_path calls %r on the same wallet, by_path(%r) returned %s (depth %d)" % (
                        hist[:-1], p, n, n.depth), hdscen.canon_impl_node(n), exp))
                else:
                    label = "node-ok"
        return {"canon": hist, "viols": viols, "label": label}


def execute(case):
    k = case.get("k")
    if "hist" in case:
        r = isolated(ByPathHistories().run, case["hist"])
        for v in r["viols"]:
            v["case"] = case
        return R(r["label"], viols=r["viols"])
    outcomes, viols, n = {}, [], 0

    def acc(res, single):
        nonlocal n
        n += 1
        o, vs = res
        outcomes[o] = outcomes.get(o, 0) + 1
        for v in vs:
            v["case"] = single
            viols.append(v)

    if k == "fmt":
        acc(chk_format(case["lst"], case["root"]), case)
    elif k == "fmt_block":
        for tail in itertools.product(IDX, repeat=case["len"] - len(case["prefix"])):
            lst = list(case["prefix"]) + list(tail)
            for root in ("m", "M"):
                acc(chk_format(lst, root), {"k": "fmt", "lst": lst, "root": root})
    elif k == "by":
        acc(chk_by_path(case["lst"], case["pub"], case["marker"]), case)
    elif k == "b85":
        acc(chk_bip85_entropy(case["lst"], case["marker"]), case)
    elif k == "bad":
        acc(chk_malformed(case["s"], case.get("origin", "fault")), case)
    elif k == "deep":
        acc(chk_deep(case["lst"]), case)
    else:
        raise ValueError(k)
    return R(outcomes, viols=viols, n=n)


def replay(case):
    return execute(case)["v"]


def run(ctx):
    cases = [{"k": "fmt_block", "prefix": [], "len": L} for L in (0, 1, 2)]
    cases += [{"k": "fmt_block", "prefix": [a], "len": 3} for a in IDX]
    cases += [{"k": "fmt_block", "prefix": [a, b], "len": L} for a in IDX for b in IDX for L in (4, 5)]
    ctx.product("format-parse-identity", cases, execute, chunk=2)
    maxlen = 5 if ctx.thorough else 3
    cases = []
    for L in range(0, maxlen + 1):
        for lst in itertools.product(SUB, repeat=L):
            for pub in (False, True):
                for marker in (("'", "h") if L <= 3 else ("alt",)):
                    cases.append({"k": "by", "lst": list(lst), "pub": pub, "marker": marker})
    ctx.product("by_path-vs-reference", cases, execute)
    # other consumers of path strings: BIP85's entropy(path)
    cases = [{"k": "b85", "lst": list(lst), "marker": mk} for L in range(1, 4 if not ctx.thorough else 6) for lst in itertools.product(SUB, repeat=L)
             for mk in (("'", "h") if L <= 2 else ("alt",))]
    ctx.product("bip85-entropy-path", cases, execute)
    # corner classes of the computed intermediates (vf/corners.py): the private key / chain code at the FIRST level of a three-level
    # path (it feeds the next level) and the x coordinate of a watch-only first level - every byte position 00 / ff, every
    # first / last byte value
    from .. import corners
    from ..ref import enc, secp
    from ..core import HarnessError
    rroot = hdscen.ref_root(MASTER)
    a0 = (ctx.seed * 100000) % (2**31 - 10**6) + 3

    def cands_prv():
        a = a0
        while True:
            n1 = hd.ckd_priv(rroot, H + a)
            yield a, {"key": n1.k.to_bytes(32, "big"), "chain": n1.chain}
            a += 1
    kept, st = corners.cover(cands_prv(), {"key": 32, "chain": 32}, 60000, pairs=False)
    ctx.extra["intermediate_corner_classes_private"] = st
    cases = [{"k": "by", "lst": [H + a, H + 1, 2], "pub": False, "marker": "'"} for a, _ in kept]

    def cands_pub():
        a = a0
        while True:
            n1 = hd.derive(rroot, [a])
            yield a, {"cx": n1.K[0].to_bytes(32, "big")}
            a += 1
    kept2, st2 = corners.cover(cands_pub(), {"cx": 32}, 60000, pairs=False)
    ctx.extra["intermediate_corner_classes_public"] = st2
    if st["covered"] != st["classes"] or st2["covered"] != st2["classes"]:
        raise HarnessError("corner cover incomplete: %r %r" % (st, st2))
    cases += [{"k": "by", "lst": [a, 1], "pub": True, "marker": "'"} for a, _ in kept2]
    ctx.product("intermediate-corners", cases, execute, chunk=8)
    cases = []
    for base in BASES:
        parts = base.split("/")
        for pos in range(1, len(parts)):
            for f in FAULTS:
                cases.append({"k": "bad", "s": "/".join(parts[:pos] + [f] + parts[pos + 1:])})
                # the fault as an extra (appended / inserted) component as well
                cases.append({"k": "bad", "s": "/".join(parts[:pos] + [f] + parts[pos:])})
            for f in LENIENT:
                cases.append({"k": "bad", "s": "/".join(parts[:pos] + [f] + parts[pos + 1:]), "origin": "lenient"})
        for r in ROOTS_BAD:
            cases.append({"k": "bad", "s": "/".join([r] + parts[1:])})
        cases.append({"k": "bad", "s": base + "/"})
    ctx.product("single-fault-grammar", cases, execute)
    cases = []
    rr = ctx.rng("deep")
    for L in range(6, 13):
        allp = list(itertools.product([0, H + 1], repeat=L))
        if L <= (12 if ctx.thorough else 8):
            sel = allp
        else:
            sel = [allp[0], allp[-1], allp[rr.randrange(len(allp))]]
        cases += [{"k": "deep", "lst": list(p)} for p in sel]
    ctx.product("deep-paths", cases, execute)
    from ..bfs import bfs
    bfs(ctx, "by_path-histories-on-one-wallet", ByPathHistories(), 3 if ctx.thorough else 2)
    from ..bfs import long_histories
    long_histories(ctx, "by_path-histories-on-one-wallet+long", ByPathHistories(), rotations=12 if ctx.thorough else 4, rounds=2)
    from ..bfs import eviction_probe
    eviction_probe(ctx, "by_path-histories-on-one-wallet+revisits", ByPathHistories(), lambda i: "m/0/%d/%d'" % (i, i % 3),
                   sizes=(1, 2, 3, 4, 5, 8, 9, 16, 17, 32, 33))
    return {}
