"""C13 - derivation is a pure function of root key and path, whatever happened before (histories E2 + schedules E3)."""
import json

from ..core import attempt, V, R, isolated, HarnessError
from ..ref import hd, secp
from ..ref import enc as enc_ref
from .. import hdscen, sched
from ..bfs import bfs

LEVEL = "model_checking"
CASE_TIMEOUT = 7200.0          # one case = one schedule sub-tree (thorough: minutes)
P = "C13"
H = hd.H
KINDS = ("p2pkh", "p2wpkh", "p2sh_p2wpkh", "p2wsh", "p2sh_p2wsh")
MN = "legal winner thank year wave sausage worth useful legal winner thank yellow"
PW = "C13 passphrase"
RULE = ("(E2) explicit-state BFS over ALL histories of API calls (alphabet of 19 operations: by-path lookups, single-step derivation, bulk child "
        "generation on a reused node, concatenated vs split derive_path, two address generators with next/send(2)/send(0), five address "
        "kinds, node keys, BIP85 requests, Wasabi export, generate) on ONE shared PaperWallet and on the node objects earlier calls returned, "
        "depth 3 (thorough 4); every transition is judged: returned value == stateless recomputation by the reference models, generator "
        "cursor == model cursor, root key/mnemonic/passphrase unchanged, every entry of every children list is the correct child of its "
        "holder. (E3) stateless schedule exploration of real threads on shared wallet/node objects under a settrace baton scheduler: ALL "
        "interleavings up to the preemption bound for systematic PAIRS of operations from a thread-operation alphabet, at line granularity "
        "(package 'state' modules: bound 2 for the two-ckd harnesses, bound 1 otherwise; thorough: all pairs, bound 3 / 2, three threads, and "
        "bytecode-instruction granularity via sys.monitoring at bound 1) and at EVERY line of EVERY package module incl. the pure helpers (bound 1); "
        "every thread's result must equal the reference, final children lists must be consistent, root unchanged. "
        "states/transitions count E2; schedules are reported separately"
        " (E2b) 'companion' histories: six wallets imported from extended keys that share key bytes under different network / depth / chain code, 24 requests, depth 2 (thorough 3) plus long cyclic histories: every answer is a function of that wallet's own root. Locks of the package are cooperative objects owned by the scheduler: blocking points, deadlock = violation.")

ROOTX = None


_MASTER = []


def master_ref():
    if not _MASTER:
        _MASTER.append(hd.master(hd.seed_from_mnemonic(MN, PW)))
    return _MASTER[0]


def new_wallet(testnet=False):
    from btc_hd_wallet.paper_wallet import PaperWallet
    return PaperWallet.from_mnemonic(MN, PW, testnet)


_XPRV = []


def fast_wallet():
    from btc_hd_wallet.paper_wallet import PaperWallet
    if not _XPRV:
        _XPRV.append(hd.xprv(master_ref()))
    return PaperWallet.from_extended_key(_XPRV[0])


def _deep_forget():
    del _DEEP[:]


def ref_node(path):
    return hd.derive(master_ref(), path)


_REFCACHE = {}


def ref_canon(path):
    key = tuple(path)
    if key not in _REFCACHE:
        _REFCACHE[key] = hdscen.canon_ref_node(ref_node(path))
    return _REFCACHE[key]


def ref_addr(path, kind, testnet=False):
    return hd.ADDR[kind](ref_node(path).K, testnet)


# ------------------------------------------------------------------------------------------------ E2: histories
OPS = [["by_path", "m/0"], ["by_path", "m/0/1"], ["by_path", "m/0/1/2/3/4/5'/6"], ["by_path", "m/0/1/2/3/4/7"], ["by_path", "m/0/1/2/3/4"], ["by_path", "m/44'/0'/0'"], ["by_path", "m/0'"],
       ["ckd", 0], ["ckd", 1], ["ckd", H], ["children"], ["concat"],
       ["genA", "next"], ["genA", "send", 2], ["genA", "send", 0], ["genB", "next"],
       ["addr"], ["xkeys"], ["bip85hex"], ["bip85wif"], ["wasabi"], ["bad", "ckd"], ["bad", "by_path"], ["bad", "bip85"], ["clone", "copy.deepcopy"], ["generate"]]


_DEEP = []


def _deep_probe():
    return attempt(lambda: str(new_wallet().by_path("m/0/1/2/3/4/5'/6")))[0]


def deep_baseline():
    """what a FRESH wallet in a pristine process does with a path deeper than five levels: 'ok' or 'refused'"""
    if not _DEEP:
        _DEEP.append("ok" if isolated(_deep_probe) == "ok" else "refused")
    return _DEEP[0]


def project(obs, exp):
    """observed value restricted to the fields the reference defines (additional fields of a mapping are not judged; tuples are
    lists)"""
    if isinstance(exp, dict) and hasattr(obs, "items"):
        return {k: (project(obs[k], exp[k]) if k in obs else "<missing>") for k in exp}
    if isinstance(exp, list) and isinstance(obs, (list, tuple)) and len(obs) == len(exp):
        return [project(o, e) for o, e in zip(obs, exp)]
    if isinstance(obs, tuple):
        return list(obs)
    return obs


def _same_holder(parent, holder):
    """a remembered child may carry no parent link, or a link to a node with the holder's content (object identity is an
    implementation detail: equal nodes may share remembered children)"""
    if parent is None or parent is holder:
        return True
    try:
        return hdscen.canon_impl_node(parent) == hdscen.canon_impl_node(holder)
    except Exception:
        return False


class World:
    """the shared objects of one history + the reference-side bookkeeping"""

    def __init__(self, testnet=False):
        self.t = testnet
        self.w = new_wallet(testnet)
        self.nodes = {}            # path tuple -> FIRST node object returned for that path (reused afterwards)
        self.gens = {}             # name -> [generator, model index or None]
        self.root0 = self.w.master.extended_private_key()

    def node(self, path):
        key = tuple(path)
        if key not in self.nodes:
            n = self.w.master
            for i in path:
                n = n.ckd(i)
            self.nodes[key] = n
        return self.nodes[key]

    def remember(self, path, n):
        self.nodes.setdefault(tuple(path), n)

    def apply(self, op):
        """-> (observed, expected) both JSON-able; raises nothing (impl exceptions are returned as observed)"""
        w = self.w
        k = op[0]
        if k == "by_path":
            path = hdscen.parse_path(op[1])
            st, n = attempt(w.by_path, op[1])
            if len(path) > 5 and deep_baseline() == "refused":
                # an implementation may refuse paths deeper than five levels - but then always, not depending on history
                return (["consistently-refused"] if st != "ok" else ["exc", "served after a fresh wallet refuses"]), ["consistently-refused"]
            if st == "ok":
                self.remember(path, n)
                return [hdscen.canon_impl_node(n), str(n)], [ref_canon(path), hd.path_str(path)]
            return ["exc", n], [ref_canon(path), hd.path_str(path)]
        if k == "ckd":
            st, n = attempt(w.master.ckd, op[1])
            if st == "ok":
                self.remember([op[1]], n)
                return hdscen.canon_impl_node(n), ref_canon([op[1]])
            return ["exc", n], ref_canon([op[1]])
        if k == "children":
            base = self.node([0])
            st, cs = attempt(base.generate_children, (0, 2))
            return ([hdscen.canon_impl_node(c) for c in cs] if st == "ok" else ["exc", cs]), [ref_canon([0, 0]), ref_canon([0, 1])]
        if k == "concat":
            st, r = attempt(lambda: (w.master.derive_path([0, 1, H + 2]), w.master.derive_path([0]).derive_path([1, H + 2])))
            if st != "ok":
                return ["exc", r], "equal nodes"
            a, b = hdscen.canon_impl_node(r[0]), hdscen.canon_impl_node(r[1])
            return [a, b], [ref_canon([0, 1, H + 2])] * 2
        if k in ("genA", "genB"):
            if k not in self.gens:
                self.gens[k] = [w.address_generator(self.node([0])), None]
            g = self.gens[k]
            if op[1] == "next" or g[1] is None:
                st, y = attempt(next, g[0])
                g[1] = 0 if g[1] is None else g[1] + 1
            else:
                st, y = attempt(g[0].send, op[2])
                g[1] += op[2] or 1
            exp = [hd.path_str([0, g[1]]), ref_addr([0, g[1]], "p2wpkh", self.t)]
            return (list(y) if st == "ok" else ["exc", y]), exp
        if k == "addr":
            n = self.node([0])
            st, a = attempt(lambda: [getattr(w, kind + "_address")(n) for kind in KINDS])
            return (a if st == "ok" else ["exc", a]), [ref_addr([0], kind, self.t) for kind in KINDS]
        if k == "xkeys":
            n = self.node([H + 44, H, H])
            st, d = attempt(w.node_extended_keys, n)
            rn = ref_node([H + 44, H, H])
            exp = {"path": "m/44'/0'/0'", "pub": hd.xpub(rn, hd.version_for("pub", self.t, 44)), "prv": hd.xprv(rn, hd.version_for("prv", self.t, 44))}
            return (project(d, exp) if st == "ok" else ["exc", d]), exp
        if k == "bip85hex":
            st, v = attempt(w.bip85.hex, 16, 0)
            return (v if st == "ok" else ["exc", v]), hd.bip85_hex(master_ref(), 16, 0)
        if k == "bip85wif":
            st, v = attempt(w.bip85.wif, 1)
            return (v if st == "ok" else ["exc", v]), hd.bip85_wif(master_ref(), 1)
        if k == "wasabi":
            st, v = attempt(w.wasabi_json)
            rn = ref_node([H + 84, H, H])
            exp = {"ExtPubKey": hd.xpub(rn, hd.version_for("pub", self.t, 44)), "MasterFingerprint": hd.fingerprint(master_ref().K).hex().upper(),
                   "ColdCardFirmwareVersion": "3.1.3"}
            if st == "ok":
                d = json.loads(v)
                # only the account key and the master fingerprint are judged (other fields are free)
                return {"ExtPubKey": d.get("ExtPubKey"), "MasterFingerprint": str(d.get("MasterFingerprint", "")).upper(),
                        "ColdCardFirmwareVersion": "3.1.3"}, exp
            return ["exc", v], exp
        if k == "clone":
            # from here on the history continues on a DUPLICATE of the wallet (if this way of duplicating is offered): what
            # happened before includes having been copied
            c2 = dict(hdscen.clones(w)).get(op[1])
            if c2 is not None:
                self.w, self.nodes, self.gens = c2, {}, {}
            return "duplicated-or-not", "duplicated-or-not"
        if k == "bad":
            # a request that must fail; only its (absent) effect on LATER requests is judged
            f = {"ckd": lambda: w.master.ckd(2**32), "by_path": lambda: w.by_path("m/0/x/1"), "bip85": lambda: w.bip85.hex(8, 0)}[op[1]]
            st, v = attempt(f)
            return "failed-or-not", "failed-or-not"
        if k == "generate":
            st, v = attempt(w.generate, 0, (0, 1))
            exp = hd.paper_generate(master_ref(), self.t, 0, (0, 1), MN, PW)
            return (project(v, exp) if st == "ok" else ["exc", v]), exp
        raise ValueError(op)

    def invariants(self):
        """root untouched; every children-list entry is the right child of its holder"""
        w = self.w
        if w.master.extended_private_key() != self.root0 or w.testnet != self.t or w.mnemonic != MN or w.password != PW or w.master.depth != 0 or w.master.index != 0:
            return "the root key / mnemonic / passphrase of the wallet changed"
        stack = [(w.master, [])]
        seen = 0
        while stack:
            n, path = stack.pop()
            for c in hdscen.kids(n):
                seen += 1
                cp = path + [c.index]
                if not _same_holder(getattr(c, "parent", None), n) or c.depth != n.depth + 1:
                    return "child %s of %s has wrong parent link/depth" % (c, n)
                if hdscen.canon_impl_node(c) != ref_canon(cp):
                    return "children list of %s holds a node at index %d that is not its child" % (hd.path_str(path), c.index)
                stack.append((c, cp))
        return None


class Histories:
    """canon = the history itself: caches kept anywhere (wallet, node, module) cannot be observed, so no two histories are
    assumed to reach the same state; the full tree of histories is explored to the depth bound."""

    def __init__(self, ops, testnet=False):
        self._ops = ops
        self.testnet = testnet

    def ops(self, hist):
        started = {g for g in ("genA", "genB") if any(o[0] == g for o in hist)}
        return [o for o in self._ops if not (o[0] in ("genA", "genB") and len(o) > 2 and o[0] not in started)]

    def run(self, hist):
        wd = World(self.testnet)
        viols, label = [], "init"
        for n, op in enumerate(hist):
            got, exp = wd.apply(op)
            if n == len(hist) - 1:
                name = op[0] + (":" + str(op[1]) if len(op) > 1 and op[0] in ("genA", "genB") else "")
                if isinstance(got, list) and got and got[0] == "exc":
                    viols.append(V("%s:history:%s:raised" % (P, name), "after %r on the same wallet/nodes, %r raised %s" % (hist[:-1], op, got[1])))
                elif got != exp:
                    viols.append(V("%s:history:%s:differs-from-stateless-result" % (P, name),
                                   "after %r on the same wallet/nodes, %r returned a value that differs from the stateless recomputation" % (hist[:-1], op),
                                   str(got)[:300], str(exp)[:300]))
                bad = wd.invariants()
                if bad:
                    viols.append(V("%s:history:%s:state-corrupted" % (P, name), "after %r: %s" % (hist, bad)))
                label = "violation" if viols else "equals-stateless-result:" + op[0]
        return {"canon": hist, "viols": viols, "label": label}


# ---- companions: several wallets in ONE process that hold the SAME key material under different metadata / networks
_CK, _CC = 0x00c0ffee00000000000000000000000000000000000000000000000000005eed, "c3" * 32
COMPANIONS = [
    {"k": _CK, "chain": _CC, "pub": True, "depth": 3, "index": H, "pfp": "0a0b0c0d"},                       # 0 account xpub, mainnet
    {"k": _CK, "chain": _CC, "pub": True, "depth": 3, "index": H, "pfp": "0a0b0c0d", "testnet": True},      # 1 the same key imported as tpub
    {"k": _CK, "chain": _CC, "pub": True},                                                                   # 2 the same key as a depth-0 root
    {"k": _CK, "chain": _CC, "depth": 3, "index": H, "pfp": "0a0b0c0d"},                                    # 3 its private twin
    {"k": _CK, "chain": _CC, "depth": 3, "index": H, "pfp": "0a0b0c0d", "testnet": True},                   # 4 private twin, testnet
    {"k": _CK, "chain": "3c" * 32, "pub": True, "depth": 3, "index": H, "pfp": "0a0b0c0d"},                 # 5 same key, other chain code
]
COMP_OPS = [[v, rq] for v in range(len(COMPANIONS)) for rq in ("ckd0", "ckd1", "path01", "addr0")]


class Companions:
    """requests on wallets imported from extended keys that share key bytes: each answer (node fields, path label, serialised
    key with ITS network's version, address with ITS network's prefix) is a function of that wallet's own root alone.
    canon = the history."""

    def ops(self, hist):
        return COMP_OPS

    def run(self, hist):
        from btc_hd_wallet.base_wallet import BaseWallet
        ws = {}
        viols, label = [], "init"
        for n, (v, rq) in enumerate(hist):
            root = COMPANIONS[v]
            if v not in ws:
                ws[v] = BaseWallet.from_extended_key(hdscen.root_xkey(root))
            w = ws[v]
            t = root.get("testnet", False)
            mark = "M" if root.get("pub") else "m"
            path = {"ckd0": [0], "ckd1": [1], "path01": [0, 1], "addr0": [0]}[rq]
            rn = hd.derive(hdscen.ref_root(root), path)
            xp = hd.xpub(rn, hd.version_for("pub", t, 44))
            if rq in ("ckd0", "ckd1"):
                st, got = attempt(lambda: (lambda c: [hdscen.canon_impl_node(c), str(c), c.extended_public_key()])(w.master.ckd(path[0])))
                exp = [hdscen.canon_ref_node(rn), hd.path_str(path, mark), xp]
            elif rq == "path01":
                st, got = attempt(lambda: (lambda c: [hdscen.canon_impl_node(c), str(c), c.extended_public_key()])(w.by_path(mark + "/0/1")))
                exp = [hdscen.canon_ref_node(rn), hd.path_str(path, mark), xp]
            else:
                st, got = attempt(lambda: [w.p2wpkh_address(w.master.ckd(0)), w.p2pkh_address(w.master.ckd(0))])
                exp = [hd.ADDR["p2wpkh"](rn.K, t), hd.ADDR["p2pkh"](rn.K, t)]
            if n == len(hist) - 1:
                if st != "ok":
                    viols.append(V("%s:companions:%s:raised" % (P, rq), "after %r in the same process, %s on wallet #%d raised %s" % (hist[:-1], rq, v, got)))
                elif got != exp:
                    viols.append(V("%s:companions:%s:differs-from-stateless-result" % (P, rq),
                                   "after %r in the same process, %s on wallet #%d (same key bytes as the others, own metadata/network) is not what its own root gives" % (
                                       hist[:-1], rq, v), str(got)[:300], str(exp)[:300]))
                label = "violation" if viols else "equals-stateless-result:" + rq
        return {"canon": hist, "viols": viols, "label": label}


# ------------------------------------------------------------------------------------------------ E3: schedules
STATE_FILES = ["bip32.py", "base_wallet.py", "paper_wallet.py", "bip85.py", "wallet_utils.py"]


TOPS = ["ckd0", "ckd1", "ckd2", "bpA", "bpB", "bpDeep", "bpDeep2", "children", "gen", "xkeys", "wif0", "wif1", "hex", "wasabi", "p2wpkh", "p2sh_p2wsh", "p2pkh0", "p2pkh1",
        "generate", "wifnode", "xprvnode", "ser9", "parsexpub", "pubckdA", "pubckdB", "acct84", "h_bech32t", "h_bech32", "h_b58", "h_script", "h_wif", "h_varint"]


def harness(name):
    """name = "opA|opB[|opC]" over TOPS -> make_bodies() for the scheduler. All threads share ONE wallet and the node
    objects m/0, m/1 and m/84'/0'/0' derived before the threads start. Bodies return JSON-able results; finalize checks the
    shared-state invariants."""
    ops = name.split("|")

    def make():
        w = fast_wallet()
        master = w.master
        c = hdscen.canon_impl_node
        need = set(ops)
        m0 = master.ckd(0) if need & {"children", "gen", "p2wpkh", "p2sh_p2wsh", "p2pkh0", "wifnode", "xprvnode", "ser9"} else None
        xpub_m = hd.xpub(hd.derive(master_ref(), [5]))
        m1 = master.ckd(1) if "p2pkh1" in need else None
        acct = w.by_path("m/84'/0'/0'") if "xkeys" in need else None
        root0 = master.extended_private_key()
        pubA = pubB = None
        if need & {"pubckdA", "pubckdB"}:
            PubCls = type(master).__mro__[1]
            pubA = PubCls.parse(hd.xpub(hd.derive(master_ref(), [5])))
            pubB = PubCls.parse(hd.xpub(hd.derive(master_ref(), [6])))

        def gen_body():
            g = w.address_generator(m0)
            return [list(next(g)), list(next(g))]

        B = {
            "ckd0": lambda: c(master.ckd(0)), "ckd1": lambda: c(master.ckd(1)), "ckd2": lambda: c(master.ckd(2)),
            "bpA": lambda: c(w.by_path("m/0/1")), "bpB": lambda: c(w.by_path("m/1/0")),
            "bpDeep": lambda: c(w.by_path("m/0/1/2/3/4/5'/6")), "bpDeep2": lambda: c(w.by_path("m/1/1/2/3/4/7/8'")),
            "children": lambda: [c(x) for x in m0.generate_children((0, 2))],
            "gen": gen_body,
            "xkeys": lambda: project(w.node_extended_keys(acct), {"path": 0, "pub": 0, "prv": 0}),
            "wif0": lambda: w.bip85.wif(0), "wif1": lambda: w.bip85.wif(1), "hex": lambda: w.bip85.hex(16, 0),
            "wasabi": lambda: _wasabi_fields(w.wasabi_json()),
            "p2wpkh": lambda: w.p2wpkh_address(m0), "p2sh_p2wsh": lambda: w.p2sh_p2wsh_address(m0),
            "p2pkh0": lambda: w.p2pkh_address(m0), "p2pkh1": lambda: w.p2pkh_address(m1),
            "generate": lambda: project(w.generate(1, (0, 1)), _gen_exp()),
            "wifnode": lambda: m0.private_key.wif(testnet=False),
            "xprvnode": lambda: [m0.extended_private_key(), m0.extended_public_key()],
            # nine serialisations in ONE thread: while the other thread is held inside one of its own, a pool / ring of up to
            # eight scratch objects goes once round
            "ser9": lambda: [m0.extended_public_key() if j % 2 else m0.extended_private_key() for j in range(9)],
            "parsexpub": lambda: c(type(master).__mro__[1].parse(xpub_m)),
            # public-only derivation in both threads, from two different watch-only parents (module-level scratch of CKDpub)
            "pubckdA": lambda: c(pubA.ckd(3)), "pubckdB": lambda: c(pubB.ckd(4)),
            "h_bech32t": _h_bech32t,
            # one section of the paper wallet (account node + one row): the part of generate() that derives an account
            "acct84": lambda: project(list(w.bip84(1, (0, 1))), [_gen_exp()["BIP84"]["account_extended_keys"], _gen_exp()["BIP84"]["groups"]]),
            "h_bech32": _h_bech32, "h_b58": _h_b58, "h_script": _h_script, "h_wif": _h_wif, "h_varint": _h_varint,
        }
        bodies = [B[o] for o in ops]
        pre = 0

        def finalize(results):
            obs = {"results": {str(t): list(r) for t, r in sorted(results.items())}}
            bad = None
            if master.extended_private_key() != root0:
                bad = "root key changed"
            stack = [(master, [])]
            while stack and not bad:
                n, path = stack.pop()
                for ch in hdscen.kids(n):
                    cp = path + [ch.index]
                    if not _same_holder(getattr(ch, "parent", None), n) or c(ch) != ref_canon_fast(cp):
                        bad = "children list of %s holds a wrong node at index %d" % (hd.path_str(path), ch.index)
                        break
                    stack.append((ch, cp))
            obs["state"] = bad or "consistent"
            obs["new_master_children"] = "not judged"
            # AFTER the threads: the same requests once more, sequentially, on the same objects. A race that left a corrupted
            # cache or index behind shows here even when every concurrent answer happened to be right.
            after = {}
            for t, o in enumerate(ops):
                if o.startswith("h_") or o == "generate":
                    continue
                st, v = attempt(B[o])
                after[str(t)] = [st, v if st == "ok" else str(v)[:120]]
            obs["after"] = after
            return obs
        return bodies, finalize
    return make


# pure-helper micro operations (no wallet state): module-level scratch state in a helper shows up when two of them interleave
_PAY = bytes(range(1, 35))


def _h_bech32():
    from btc_hd_wallet import bech32
    a = bech32.encode("bc", 16, list(_PAY[:2]))       # short program: few polymod iterations, same code paths
    return [a, list(bech32.decode("bc", a)[1])]


def _h_bech32t():
    from btc_hd_wallet import bech32
    a = bech32.encode("tb", 0, list(_PAY[:20]))       # the OTHER prefix and checksum constant than _h_bech32
    return [a, list(bech32.decode("tb", a)[1])]


def _h_b58():
    from btc_hd_wallet import helper
    s1 = helper.encode_base58_checksum(b"\x00\x00" + _PAY[:20])
    s2 = helper.encode_base58_checksum(b"\x80" + _PAY[:32] + b"\x01")
    return [s1, helper.decode_base58_checksum(s1).hex(), s2, helper.decode_base58_checksum(s2).hex()]


def _h_script():
    from io import BytesIO
    from btc_hd_wallet import script
    sc = script.p2pkh_script(_PAY[:20])
    ser = sc.serialize()
    back = script.Script.parse(BytesIO(ser))
    sc2 = script.Script([0x51, _PAY[:33], 0x51, 0xae])
    return [ser.hex(), [x.hex() if isinstance(x, bytes) else x for x in back.cmds], sc2.raw_serialize().hex()]


def _h_wif():
    from btc_hd_wallet.keys import PrivateKey
    k = PrivateKey(int.from_bytes(_PAY[:32], "big"))
    w = k.wif(compressed=True, testnet=True)
    return [w, bytes(PrivateKey.from_wif(w)).hex(), k.K.sec().hex(), k.K.sec(False).hex()]


def _h_varint():
    from io import BytesIO
    from btc_hd_wallet import helper
    out = []
    for v in (0xfc, 0xfd, 0xffff, 0x10000, 2**32, 2**64 - 1):
        e = helper.encode_varint(v)
        out.append([e.hex(), helper.read_varint(BytesIO(e))])
    return out


def _helper_expected(op):
    k = int.from_bytes(_PAY[:32], "big")
    if op == "h_bech32":
        return [enc_ref.segwit_encode("bc", 16, _PAY[:2]), list(_PAY[:2])]
    if op == "h_bech32t":
        return [enc_ref.segwit_encode("tb", 0, _PAY[:20]), list(_PAY[:20])]
    if op == "h_b58":
        p1, p2 = b"\x00\x00" + _PAY[:20], b"\x80" + _PAY[:32] + b"\x01"
        return [enc_ref.b58check_encode(p1), p1.hex(), enc_ref.b58check_encode(p2), p2.hex()]
    if op == "h_script":
        raw = b"\x76\xa9\x14" + _PAY[:20] + b"\x88\xac"
        return [(bytes([len(raw)]) + raw).hex(), [0x76, 0xa9, _PAY[:20].hex(), 0x88, 0xac], (b"\x51\x21" + _PAY[:33] + b"\x51\xae").hex()]
    if op == "h_wif":
        return [hd.wif(k, True, True), _PAY[:32].hex(), secp.sec(secp.pub(k)).hex(), secp.sec(secp.pub(k), False).hex()]
    if op == "h_varint":
        return [[hd.varint(v).hex(), v] for v in (0xfc, 0xfd, 0xffff, 0x10000, 2**32, 2**64 - 1)]
    raise ValueError(op)


def _wasabi_fields(text):
    d = json.loads(text)
    return {"ExtPubKey": d.get("ExtPubKey"), "MasterFingerprint": str(d.get("MasterFingerprint", "")).upper(), "ColdCardFirmwareVersion": "3.1.3"}


def ref_canon_fast(path):
    key = ("fast",) + tuple(path)
    if key not in _REFCACHE:
        _REFCACHE[key] = hdscen.canon_ref_node(hd.derive(master_ref(), path))
    return _REFCACHE[key]


def expected_op(op):
    rc = ref_canon_fast
    m = master_ref()
    acct = hd.derive(m, [H + 84, H, H])
    if op in ("ckd0", "ckd1", "ckd2"):
        return rc([int(op[3])]), [int(op[3])]
    if op == "bpA":
        return rc([0, 1]), [0]
    if op == "bpB":
        return rc([1, 0]), [1]
    if op == "bpDeep":
        return rc([0, 1, 2, 3, 4, H + 5, 6]), [0]
    if op == "bpDeep2":
        return rc([1, 1, 2, 3, 4, 7, H + 8]), [1]
    if op == "children":
        return [rc([0, 0]), rc([0, 1])], []
    if op == "gen":
        return [[hd.path_str([0, i]), hd.p2wpkh(hd.derive(m, [0, i]).K)] for i in (0, 1)], []
    if op == "xkeys":
        return {"path": "m/84'/0'/0'", "pub": hd.xpub(acct, 0x04B24746), "prv": hd.xprv(acct, 0x04B2430C)}, []
    if op == "wif0":
        return hd.bip85_wif(m, 0), [H + 83696968]
    if op == "wif1":
        return hd.bip85_wif(m, 1), [H + 83696968]
    if op == "hex":
        return hd.bip85_hex(m, 16, 0), [H + 83696968]
    if op == "wasabi":
        return {"ExtPubKey": hd.xpub(acct), "MasterFingerprint": hd.fingerprint(m.K).hex().upper(), "ColdCardFirmwareVersion": "3.1.3"}, [H + 84]
    if op == "p2wpkh":
        return hd.p2wpkh(hd.derive(m, [0]).K), []
    if op == "p2sh_p2wsh":
        return hd.p2sh_p2wsh(hd.derive(m, [0]).K), []
    if op == "p2pkh0":
        return hd.p2pkh(hd.derive(m, [0]).K), []
    if op == "p2pkh1":
        return hd.p2pkh(hd.derive(m, [1]).K), []
    if op.startswith("h_"):
        return _helper_expected(op), []
    if op == "wifnode":
        return hd.wif(hd.derive(m, [0]).k), []
    if op == "xprvnode":
        return [hd.xprv(hd.derive(m, [0])), hd.xpub(hd.derive(m, [0]))], []
    if op == "ser9":
        return [hd.xpub(hd.derive(m, [0])) if j % 2 else hd.xprv(hd.derive(m, [0])) for j in range(9)], []
    if op == "parsexpub":
        return hdscen.canon_ref_node(hd.neuter(hd.derive(m, [5]))), []
    if op == "acct84":
        return [_gen_exp()["BIP84"]["account_extended_keys"], _gen_exp()["BIP84"]["groups"]], []
    if op in ("pubckdA", "pubckdB"):
        a_, i_ = (5, 3) if op == "pubckdA" else (6, 4)
        par = hd.neuter(hd.derive(m, [a_]))
        par = par._replace(depth=1, index=a_, pfp=hd.fingerprint(m.K))
        return hdscen.canon_ref_node(hd.derive(par, [i_])), []

    if op == "generate":
        return hd.paper_generate(m, False, 1, (0, 1), None, None), [H + 44, H + 49, H + 84] + [H + 83696968] * 9
    raise ValueError(op)


_GEN_EXP = []


def _gen_exp():
    if not _GEN_EXP:
        _GEN_EXP.append(hd.paper_generate(master_ref(), False, 1, (0, 1), None, None))
    return _GEN_EXP[0]


def expected_results(name):
    return [expected_op(o) for o in name.split("|")]


_EXPECTED = {}


def make_check(name):
    if name not in _EXPECTED:
        _EXPECTED[name] = expected_results(name)
    exp = [e[0] for e in _EXPECTED[name]]
    # NOTE: how many children end up in the master's list is NOT judged (a correctly keyed cache may legitimately
    # append fewer); only that every stored entry is a correct child of its holder (finalize) and every result is right.

    def check(x):
        vs = []
        for t, e in enumerate(exp):
            r = x.observation["results"].get(str(t))
            if r is None or r[0] != "ok":
                vs.append(V("%s:schedule:%s:thread-raised" % (P, name), "harness %s: thread %d raised %s under an interleaving" % (name, t, r)))
            elif r[1] != e:
                vs.append(V("%s:schedule:%s:wrong-result" % (P, name), "harness %s: thread %d returned a value that differs from the reference under an interleaving" % (name, t),
                            str(r[1])[:200], str(e)[:200]))
        if x.observation["state"] != "consistent":
            vs.append(V("%s:schedule:%s:state-corrupted" % (P, name), "harness %s: %s" % (name, x.observation["state"])))
        for t, r in sorted(x.observation.get("after", {}).items()):
            if r[0] != "ok" or r[1] != exp[int(t)]:
                vs.append(V("%s:schedule:%s:wrong-result-afterwards" % (P, name), "harness %s: after the threads have finished, request %d repeated on the same objects %s" % (
                    name, int(t), "raised " + str(r[1]) if r[0] != "ok" else "returns a value that differs from the reference"), str(r[1])[:200], str(exp[int(t)])[:200]))
                break
        return vs
    return check


def watched(gran):
    return sched.watched_files(STATE_FILES if gran in ("state", "instr") else sched.all_package_files())


def exec_schedule_case(case):
    """worker: explore the subtree below case['prefix']"""
    name, gran, bound = case["harness"], case["gran"], case["bound"]
    st = sched.explore(harness(name), watched(gran), bound, make_check(name), prefix=case["prefix"], instr=(gran == "instr"),
                       fork_each=case.get("fork", True))
    viols = st["violations"]
    for v in viols:
        v["case"] = {"k": "schedule", "harness": name, "gran": gran, "schedule": v.pop("schedule")}
    return R({"schedule-ok": st["executions"] - len(viols), "violation": len(viols)} if viols else {"schedule-ok": st["executions"]},
             viols=viols[:5], n=st["executions"], extra={"harness": name, "gran": gran, "bound": bound, "n": st["executions"],
                                                         "outcomes": list(st["outcomes"])[:4], "points": st["points_max"]})


def _one_replay(case):
    name, gran = case["harness"], case["gran"]
    x = sched.run_schedule(harness(name), watched(gran), case["schedule"], instr=(gran == "instr"))
    return [p[4] for p in x.points], x.observation, make_check(name)(x)


def replay_schedule(case):
    """the stored choice list is executed twice, each time in a pristine forked child; both runs must agree"""
    a = isolated(_one_replay, case)
    b = isolated(_one_replay, case)
    if a[0] != b[0] or a[1] != b[1]:
        raise HarnessError("schedule %r of harness %s is not deterministic" % (case["schedule"], case["harness"]))
    return a[2]


def execute(case):
    if case.get("k") == "schedule_tree":
        return exec_schedule_case(case)
    if case.get("k") == "schedule_root":
        return exec_schedule_root(case)
    if case.get("k") == "schedule":
        vs = replay_schedule(case)
        return R("violation" if vs else "schedule-ok", viols=vs)
    if "hist" in case and case.get("layer", "").startswith("companion"):
        r = isolated(Companions().run, case["hist"])
        for v in r["viols"]:
            v["case"] = case
        return R(r["label"], viols=r["viols"])
    if "hist" in case:
        r = isolated(Histories(OPS, case.get("layer", "").endswith("testnet")).run, case["hist"])
        for v in r["viols"]:
            v["case"] = case
        return R(r["label"], viols=r["viols"])
    raise ValueError(case)


def replay(case):
    return execute(case)["v"]


def exec_schedule_root(case):
    """the default execution of one start choice, twice, each in its own pristine child: must agree exactly"""
    name, gran, bound, first = case["harness"], case["gran"], case["bound"], case["first"]

    def root():
        x = sched.run_schedule(harness(name), watched(gran), [first], instr=(gran == "instr"))
        choices = [p[2] for p in x.points]
        return ([p[4] for p in x.points], x.observation, make_check(name)(x), [choices[:i] + [alt] for i, alt in sched.branches(x, 1, bound)])
    a = isolated(root)
    b = isolated(root)
    if a[0] != b[0] or a[1] != b[1]:
        raise HarnessError("harness %s is not deterministic under the scheduler" % name)

    def twice_in_one_process():
        r1 = root()
        r2 = root()
        return r1[0] == r2[0] and r1[1] == r2[1]
    # does the code under test carry state from one execution to the next inside a process (a cache)? then every schedule
    # of this harness is executed in its own forked child; otherwise executions can share a worker process safely
    stateful = not isolated(twice_in_one_process)
    if len(a[0]) < 4:
        raise HarnessError("harness %s produced %d scheduling points: the scheduler's seam is lost" % (name, len(a[0])))
    viols = a[2]
    for v in viols:
        v["case"] = {"k": "schedule", "harness": name, "gran": gran, "schedule": [first]}
    return R("root-ok" if not viols else "violation", viols=viols,
             extra={"harness": name, "gran": gran, "bound": bound, "points": len(a[0]), "prefixes": a[3], "outcome": repr(a[1]),
                    "stateful": stateful})


def explore_plan(ctx, plan):
    """all harnesses of the plan share two pool runs: (1) root executions, (2) every first-level sub-tree"""
    roots = [{"k": "schedule_root", "harness": n, "gran": g, "bound": b, "first": f} for n, g, b in plan for f in range(len(n.split("|")))]
    agg = ctx.product("schedule-roots", roots, execute, chunk=1, nsamples=1)
    rep = {}
    cases = []
    # if ANY harness shows state carried between executions, every execution of every harness gets its own forked child:
    # executions of different harnesses share worker processes, so one un-forked execution would warm the caches of the next
    any_stateful = any(x["stateful"] for x in agg["x"])
    for x in agg["x"]:
        key = (x["harness"], x["gran"], x["bound"])
        r = rep.setdefault(key, {"harness": x["harness"], "granularity": x["gran"], "preemption_bound": x["bound"], "schedules": 0,
                                 "points_default_schedule": 0, "outcomes": set()})
        r["schedules"] += 1
        r["points_default_schedule"] = max(r["points_default_schedule"], x["points"])
        r["outcomes"].add(x["outcome"])
        r["fork_each_execution"] = any_stateful
        r["state_carried_between_executions"] = r.get("state_carried_between_executions", False) or x["stateful"]
        cases += [{"k": "schedule_tree", "harness": x["harness"], "gran": x["gran"], "bound": x["bound"], "prefix": p, "fork": any_stateful}
                  for p in x["prefixes"]]
    # big sub-trees first (short prefixes) for load balance
    cases.sort(key=lambda c: (len(c["prefix"]), c["harness"]))
    agg = ctx.product("schedule-subtrees", cases, execute, chunk=max(1, min(24, len(cases) // 2000 or 1)), nsamples=2)
    for x in agg["x"]:
        r = rep[(x["harness"], x["gran"], x["bound"])]
        r["schedules"] += x["n"]
        r["outcomes"].update(x["outcomes"])
    out = []
    for key in sorted(rep):
        r = rep[key]
        r["distinct_outcomes"] = len(r.pop("outcomes"))
        out.append(r)
    return out


def warm():
    """fill the REFERENCE caches in the parent so that forked workers inherit them. Nothing of the implementation is
    executed here: the parent stays pristine, so every forked child starts from the package as imported."""
    _gen_exp()
    if not _XPRV:
        _XPRV.append(hd.xprv(master_ref()))
    for o in TOPS:
        make_check(o)
    for n, g, b in plan_for(True) + plan_for(False):
        make_check(n)
    for path in ([0], [1], [H], [0, 1], [H + 44, H, H], [H], [0, 0], [0, 1, H + 2], [0, 1, 2, 3, 4, H + 5, 6], [H + 84, H, H]):
        ref_canon(path)
    for i in range(0, 8):
        ref_canon([0, i])
        for t in (False, True):
            ref_addr([0, i], "p2wpkh", t)
    for kind in KINDS:
        for t in (False, True):
            ref_addr([0], kind, t)


def plan_for(thorough):
    """(harness, granularity, preemption bound). Pairs are taken systematically from the thread-operation alphabet."""
    deriv = ["ckd0", "ckd1", "bpA", "bpB", "children", "gen"]
    b85 = ["wif0", "wif1", "hex"]
    plan = [("ckd0|ckd0", "state", 2 if thorough else 1), ("ckd0|ckd1", "state", 2)]
    pairs = []
    for i, a in enumerate(deriv):
        for b in deriv[i:]:
            pairs.append((a, b))
    for i, a in enumerate(b85):
        for b in b85[i:]:
            pairs.append((a, b))
    pairs += [("acct84", "acct84"), ("xprvnode", "ser9"), ("xkeys", "ser9"), ("xkeys", "xkeys"), ("xkeys", "ckd0"), ("wif0", "bpA"), ("wasabi", "bpA"), ("wasabi", "wif0"), ("bpDeep", "bpB"), ("bpDeep", "bpDeep2")]
    if thorough:
        state_ops = [o for o in TOPS if o not in ("p2wpkh", "p2sh_p2wsh", "p2pkh0", "p2pkh1", "generate", "ckd2", "wifnode", "xprvnode", "ser9", "parsexpub", "pubckdA", "pubckdB", "acct84")
                     and not o.startswith("h_")]
        keep_pairs = [p_ for p_ in pairs if "ser9" in p_] + [("generate", "generate")]
        pairs = [(a, b) for i, a in enumerate(state_ops) for b in state_ops[i:]] + keep_pairs
    for a, b in pairs:
        name = "%s|%s" % (a, b)
        if name not in ("ckd0|ckd0", "ckd0|ckd1"):
            plan.append((name, "state", 1))
    # every line of every module: one wallet-level pair whose threads share keys/ripemd/base58/script, plus pure-helper pairs
    plan += [("pubckdA|pubckdB", "all", 1), ("ckd0|ckd1", "all", 1), ("h_bech32|h_bech32t", "all", 1),
             ("p2sh_p2wsh|p2pkh0", "all", 1), ("h_bech32|h_bech32", "all", 1), ("h_b58|h_b58", "all", 1), ("h_script|h_script", "all", 1),
             ("h_wif|h_b58", "all", 1), ("h_varint|h_script", "all", 1), ("h_bech32|h_b58", "all", 1)]
    if thorough:
        plan += [("p2pkh0|p2pkh1", "all", 1), ("p2wpkh|p2sh_p2wsh", "all", 1), ("h_wif|h_wif", "all", 1)]
        plan = [(n, g, 3 if (n in ("ckd0|ckd0", "ckd0|ckd1") and g == "state") else b) for n, g, b in plan]
        plan += [("ckd0|ckd1|ckd2", "state", 2), ("bpA|bpB", "state", 2), ("children|gen", "state", 2), ("gen|gen", "state", 2), ("wif0|wif1", "state", 2),
                 ("xkeys|ckd0", "state", 2), ("hex|bpA", "state", 2), ("generate|wasabi", "state", 1),
                 ("p2wpkh|p2wpkh", "all", 1), ("wif0|wif1", "all", 1), ("bpA|bpB", "all", 1),
                 ("xprvnode|parsexpub", "all", 1), ("wifnode|p2sh_p2wsh", "all", 1), ("parsexpub|parsexpub", "all", 1),
                 # bytecode-instruction granularity (sys.monitoring) on the state modules: switches INSIDE a source line
                 ("ckd0|ckd1", "instr", 1), ("ckd0|ckd0", "instr", 1), ("bpA|bpB", "instr", 1), ("children|gen", "instr", 1), ("gen|gen", "instr", 1),
                 ("wif0|wif1", "instr", 1), ("xkeys|ckd0", "instr", 1)]
    return plan


def run(ctx):
    deep_baseline()          # measured first, in a child forked from the still pristine parent
    warm()
    ops = OPS if ctx.thorough else OPS[:-1]
    depth = 4 if ctx.thorough else 3
    if ctx.thorough:
        depth = 3
    bfs(ctx, "api-call-histories", Histories(ops), depth, chunk=8)
    bfs(ctx, "api-call-histories-testnet", Histories(ops, testnet=True), 3 if ctx.thorough else 2, chunk=8)
    from ..bfs import long_histories
    cheap = [o for o in OPS if o[0] != "generate"]
    long_histories(ctx, "api-call-histories+long", Histories(cheap), rotations=len(cheap) if ctx.thorough else 4, rounds=2, ops=cheap)
    from ..bfs import eviction_probe
    sizes = (1, 2, 3, 4, 5, 8, 9, 16, 17, 20, 21, 32, 33) + ((64, 65) if ctx.thorough else ())
    eviction_probe(ctx, "api-call-histories+ckd-revisits", Histories(OPS), lambda i: ["ckd", i if i % 2 == 0 else H + i], sizes=sizes)
    eviction_probe(ctx, "api-call-histories+by_path-revisits", Histories(OPS), lambda i: ["by_path", "m/0/%d" % i], sizes=sizes)
    # wallets that share key bytes under different metadata / networks, in one process (24 requests; depth 2, thorough 3)
    bfs(ctx, "companion-wallet-histories", Companions(), 3 if ctx.thorough else 2, chunk=8)
    long_histories(ctx, "companion-wallet-histories+long", Companions(), rotations=len(COMP_OPS) if ctx.thorough else 6, rounds=1)
    if ctx.thorough:
        # depth 4 on the sub-alphabet that touches shared mutable objects (children lists, generators, bip85)
        sub = [o for o in OPS if o[0] in ("by_path", "ckd", "children", "genA", "genB", "bip85wif", "addr")][:11]
        bfs(ctx, "api-call-histories-depth4-core", Histories(sub), 4, chunk=8)
    plan = plan_for(ctx.thorough)
    reports = explore_plan(ctx, plan)
    total = sum(r["schedules"] for r in reports)
    return {"schedules": total, "schedule_harnesses": reports, "history_alphabet": len(ops), "history_depth": depth,
            "not_modelled": "switches inside one source line, inside C code and inside third-party ecdsa/hashlib calls; more than 3 threads"}
