"""C06 - paper-wallet records are mutually consistent and follow BIP44/49/84."""
import itertools
import json

from ..core import attempt, V, R, isolated
from ..ref import hd, secp, enc
from ..bfs import bfs

LEVEL = "exploration"
P = "C06"
H = hd.H
RULE = ("wallet sources (mnemonic+passphrase, seed hex, xprv/tprv) x networks x accounts {0,1,2^31-2,2^31-1,seeded} x intervals {(0,0),(0,1),"
        "(5,6),(0,3),(7,7),(3,1),(2^31-2,2^31),(2^31-1,2^31),(0,2)}: quick = every vector within 2 deviations of the default vector, "
        "thorough = the full product; plus histories of generate/json/wasabi_json calls on ONE wallet object (depth 2, thorough 3). "
        "Oracle: the complete expected dictionary from the reference models (paths, SLIP-132 account keys, one row per index in order "
        "with address/SEC/WIF, MASTER echo, BIP85 block), JSON round trip, Wasabi export, and row-internal consistency (WIF -> key -> "
        "SEC -> address) checked without using the path. non-trivial = dictionary compared leaf by leaf; distinct by construction"
        "; sources include entropy hex with and without passphrase; additional fields of a mapping are not judged")

MN = "abandon abandon abandon abandon abandon abandon abandon abandon abandon abandon abandon about"
SOURCES = [
    {"kind": "mnemonic", "mnemonic": MN, "password": ""},
    {"kind": "mnemonic", "mnemonic": "legal winner thank year wave sausage worth useful legal winner thank yellow", "password": "TREZOR pässwörd"},
    {"kind": "seed", "seed": "000102030405060708090a0b0c0d0e0f" * 4},
    {"kind": "entropy", "entropy": "7f" * 16, "password": "entropy-source passphrase"},
    {"kind": "entropy", "entropy": "00" * 4 + "a5" * 20, "password": ""},
    {"kind": "ctor", "seed": "a1b2c3d4" * 8},          # PaperWallet(master=<node built with the OTHER network flag>, testnet=...): the wallet's flag rules
    {"kind": "xkey", "k": 0x00000000000000000000000000000000F1E2D3C4B5A69788796A5B4C3D2E1F00, "chain": "00" * 32},
    {"kind": "xkey", "k": hd.N - 1, "chain": "ff" * 32},
    {"kind": "xkey", "k": 0x5D2A1C3B4E5F60718293A4B5C6D7E8F900112233445566778899AABBCCDDEEFF, "chain": "3c" * 32, "depth": 3, "index": hd.H + 7, "pfp": "0badcafe"},
]
NETS = [False, True]
# [0,12] and [95,105]: more than ten rows / a change in the number of digits of the index (row order must stay numeric)
INTERVALS = [[0, 2], [0, 0], [0, 1], [5, 6], [0, 3], [7, 7], [3, 1], [H - 2, H], [H - 1, H], [0, 12], [95, 105]]


def accounts(ctx):
    # 44/49/84: account numbers that collide with the purpose numbers
    return [0, 1, H - 2, H - 1, ctx.rng("acct").randrange(2, H - 2), 49, 84, 44]


class ContradictoryInputRefused(Exception):
    pass


def build(src, testnet):
    from btc_hd_wallet.paper_wallet import PaperWallet
    if src["kind"] == "mnemonic":
        w = PaperWallet.from_mnemonic(src["mnemonic"], src["password"], testnet)
        m = hd.master(hd.seed_from_mnemonic(src["mnemonic"], src["password"]))
        return w, m, src["mnemonic"], src["password"]
    if src["kind"] == "entropy":
        mn = hd.mnemonic_from_entropy(bytes.fromhex(src["entropy"]))
        w = PaperWallet.from_entropy_hex(src["entropy"], src["password"], testnet)
        return w, hd.master(hd.seed_from_mnemonic(mn, src["password"])), mn, src["password"]
    if src["kind"] == "ctor":
        from btc_hd_wallet.bip32 import PrvKeyNode
        node_ = PrvKeyNode.master_key(bytes.fromhex(src["seed"]), not testnet)
        st_, w_ = attempt(lambda: PaperWallet(master=node_, testnet=testnet))
        if st_ != "ok":
            raise ContradictoryInputRefused(str(w_))     # refusing contradictory flags is a legitimate answer: the source is skipped
        return w_, hd.master(bytes.fromhex(src["seed"])), None, None
    if src["kind"] == "seed":
        w = PaperWallet.from_bip39_seed_hex(src["seed"], testnet)
        return w, hd.master(bytes.fromhex(src["seed"])), None, None
    node = hd.node_from_priv(src["k"], bytes.fromhex(src["chain"]), src.get("depth", 0), src.get("index", 0),
                             bytes.fromhex(src["pfp"]) if src.get("pfp") else b"\x00" * 4)
    w = PaperWallet.from_extended_key(hd.xprv(node, hd.version_for("prv", testnet, 44)))
    return w, node, None, None


def row_consistency(name, kind, row, testnet):
    """WIF -> scalar -> SEC -> address, independent of the stated path"""
    path, addr, sec_hex, wif = row
    try:
        p = enc.b58check_decode(wif)
    except ValueError:
        return "WIF %r does not decode" % wif
    if len(p) != 34 or p[0] != (0xEF if testnet else 0x80) or p[-1] != 1:
        return "WIF %r has payload %s" % (wif, p.hex())
    k = int.from_bytes(p[1:33], "big")
    K = secp.pub(k)
    if secp.sec(K).hex() != sec_hex:
        return "SEC column %s is not the public key of the WIF column" % sec_hex
    if hd.ADDR[kind](K, testnet) != addr:
        return "address %s is not the %s address of the row's key" % (addr, kind)
    return None


def norm(x):
    """tuples and lists are the same thing for this property (rows 'in order'); mappings of any flavour are mappings"""
    if isinstance(x, dict) or hasattr(x, "items") and callable(x.items):
        return {k: norm(v) for k, v in x.items()}
    if isinstance(x, (list, tuple)):
        return [norm(v) for v in x]
    return x


def diff_paths(a, b, pre=""):
    """a = observed (normalised), b = expected. Every field the reference wallet has must be present and equal; ADDITIONAL
    fields of a mapping are not judged (the property lists what a wallet shows, not what else it may show)."""
    if type(a) != type(b):
        return [pre or "<root>"]
    if isinstance(a, dict):
        out = []
        for k in sorted(b, key=str):
            if k not in a:
                out.append("%s/%s" % (pre, k))
            else:
                out += diff_paths(a[k], b[k], "%s/%s" % (pre, k))
        return out
    if isinstance(a, list):
        if len(a) != len(b):
            return ["%s[len %d!=%d]" % (pre, len(a), len(b))]
        out = []
        for i, (x, y) in enumerate(zip(a, b)):
            out += diff_paths(x, y, "%s[%d]" % (pre, i))
        return out
    return [] if a == b else [pre]


def judge_generate(w, m, mn, pw, testnet, account, interval, ctxmsg=""):
    viols = []
    st, data = attempt(w.generate, account, tuple(interval))
    exp = hd.paper_generate(m, testnet, account, tuple(interval), mn, pw)
    net = "testnet" if testnet else "mainnet"
    if st != "ok":
        return [V("%s:generate:%s:raised" % (P, net), "%sgenerate(account=%d, interval=%r) raised %s" % (ctxmsg, account, interval, data))], None
    d = diff_paths(norm(data), exp)
    if d:
        top = sorted({x.split("/")[1].split("[")[0] if "/" in x else x for x in d})
        leaf = sorted({(x.rsplit("/", 1)[-1].split("[")[0]) for x in d})
        viols.append(V("%s:generate:%s:%s:differs" % (P, net, "+".join(top)[:60]),
                       "%sgenerate(account=%d, interval=%r) differs from the reference at %r" % (ctxmsg, account, interval, d[:4]),
                       {"at": d[:6]}, None))
    for purpose, name, kind in hd.PURPOSES:
        for row in (data.get(name) or {}).get("groups", []):
            bad = row_consistency(name, kind, row, testnet)
            if bad:
                viols.append(V("%s:generate:%s:row-inconsistent" % (P, name), "%srow %r: %s" % (ctxmsg, row[0], bad)))
                break
    return viols, data


def wasabi_ok(text, exp):
    """the export must carry the account key and the master fingerprint; other fields (firmware string ...) are not judged"""
    try:
        d = json.loads(text)
    except (ValueError, TypeError):
        return False
    return isinstance(d, dict) and d.get("ExtPubKey") == exp["ExtPubKey"] and str(d.get("MasterFingerprint", "")).lower() == exp["MasterFingerprint"].lower()


def chk_vector(si, testnet, account, interval):
    src = SOURCES[si]
    try:
        w, m, mn, pw = build(src, testnet)
    except ContradictoryInputRefused:
        return []
    viols, data = judge_generate(w, m, mn, pw, testnet, account, interval)
    if data is not None:
        st, js = attempt(w.json, data)
        if st != "ok" or json.loads(js) != norm(data):
            viols.append(V(P + ":json:roundtrip:differs", "json(data) does not parse back to data"))
        st, js4 = attempt(w.json, data, 4)
        if st != "ok" or json.loads(js4) != norm(data):
            viols.append(V(P + ":json:roundtrip-indent:differs", "json(data, indent=4) does not parse back to data"))
    if src["kind"] == "ctor":
        return viols          # node-level serialisation of a node built with the other flag follows the NODE (unchanged code too): not judged
    st, wj = attempt(w.wasabi_json)
    acct84 = hd.derive(m, [H + 84, H, H])
    expw = {"ExtPubKey": hd.xpub(acct84, 0x043587CF if testnet else 0x0488B21E), "MasterFingerprint": hd.fingerprint(m.K).hex().upper(),
            "ColdCardFirmwareVersion": "3.1.3"}
    if st != "ok" or not wasabi_ok(wj, expw):
        viols.append(V("%s:wasabi_json:%s:differs" % (P, "testnet" if testnet else "mainnet"), "wasabi export", wj if st == "ok" else wj, expw))
    return viols


HIST_OPS = [["gen", 0, [0, 1]], ["gen", 0, [1, 3]], ["gen", 1, [0, 1]], ["gen", 0, [0, 0]], ["wasabi"], ["gen", 0, [1, 2]], ["gen", 0, [0, 4]],
            ["json_default_small"]]


class WalletHistories:
    """generate / export calls on ONE wallet object in sequence. canon = the history."""

    def ops(self, hist):
        return HIST_OPS[:7]

    def run(self, hist):
        w, m, mn, pw = build(SOURCES[0], True)
        viols, label = [], "init"
        for n, op in enumerate(hist):
            last = n == len(hist) - 1
            if op[0] == "gen":
                if last:
                    viols, _ = judge_generate(w, m, mn, pw, True, op[1], op[2], "after %r on the same wallet: " % (hist[:-1],))
                    for v in viols:
                        v["key"] = v["key"].replace(":generate:", ":generate(history):")
                else:
                    attempt(w.generate, op[1], tuple(op[2]))
            elif op[0] == "wasabi":
                st, wj = attempt(w.wasabi_json)
                if last:
                    acct84 = hd.derive(m, [H + 84, H, H])
                    expw = {"ExtPubKey": hd.xpub(acct84, 0x043587CF), "MasterFingerprint": hd.fingerprint(m.K).hex().upper(), "ColdCardFirmwareVersion": "3.1.3"}
                    if st != "ok" or not wasabi_ok(wj, expw):
                        viols.append(V(P + ":wasabi_json(history):differs", "after %r: wasabi export differs" % (hist[:-1],)))
            label = "violation" if viols else "answer-ok"
        return {"canon": hist, "viols": viols, "label": label}


class SameMasterHistories:
    """two wallet objects holding the SAME master key (A built from mnemonic+passphrase, B imported from A's master
    xprv) used alternately in one process; default renderings (json() without data) must describe the wallet they are
    called on. canon = the history."""
    OPS = [["A", "json"], ["B", "json"], ["A", "gen"], ["B", "gen"], ["B", "export"], ["C", "gen"], ["D", "gen"], ["E", "json"]]

    def ops(self, hist):
        return self.OPS

    def run(self, hist):
        from btc_hd_wallet.paper_wallet import PaperWallet
        src = SOURCES[1]
        a, m, mn, pw = build(src, False)
        b = PaperWallet.from_extended_key(hd.xprv(m))
        # C, D, E: duplicates of A (copy.copy / copy.deepcopy / pickle round trip) - same wallet, same master block
        from .. import hdscen
        cl = dict(hdscen.clones(a))
        ws = {"A": (a, mn, pw), "B": (b, None, None), "C": (cl.get("copy.deepcopy", a), mn, pw), "D": (cl.get("pickle", a), mn, pw),
              "E": (cl.get("copy.copy", a), mn, pw)}
        viols, label = [], "init"
        for n, (wid, req) in enumerate(hist):
            w, wmn, wpw = ws[wid]
            if req == "gen":
                st, out = attempt(w.generate, 0, (0, 1))
                exp = hd.paper_generate(m, False, 0, (0, 1), wmn, wpw)
            elif req == "json":
                st, out = attempt(w.json)
                out = json.loads(out) if st == "ok" else out
                exp = hd.paper_generate(m, False, 0, (0, 20), wmn, wpw)
            else:
                import os, tempfile
                d = tempfile.mkdtemp(prefix="vfc06.")
                f = os.path.join(d, "w.json")
                st, out = attempt(w.export_wallet, f)
                if st == "ok":
                    out = json.load(open(f))
                __import__("shutil").rmtree(d, ignore_errors=True)
                exp = hd.paper_generate(m, False, 0, (0, 20), wmn, wpw)
            if n == len(hist) - 1:
                if st != "ok":
                    viols.append(V(P + ":same-master-history:%s:raised" % req, "after %r: %s.%s raised %s" % (hist[:-1], wid, req, out)))
                elif diff_paths(norm(out), exp):
                    d = diff_paths(norm(out), exp)
                    viols.append(V("%s:same-master-history:%s:differs" % (P, req), "after %r in the same process, wallet %s's %s differs from its own reference wallet at %r" % (
                        hist[:-1], wid, req, d[:4])))
                label = "violation" if viols else "answer-ok"
        return {"canon": hist, "viols": viols, "label": label}


def execute(case):
    if "hist" in case and case.get("layer", "").startswith("two-wallets-same-master"):
        r = isolated(SameMasterHistories().run, case["hist"])
        for v in r["viols"]:
            v["case"] = case
        return R(r["label"], viols=r["viols"])
    if "hist" in case:
        r = isolated(WalletHistories().run, case["hist"])
        for v in r["viols"]:
            v["case"] = case
        return R(r["label"], viols=r["viols"])
    vs = chk_vector(case["src"], case["testnet"], case["account"], case["interval"])
    return R("violation" if vs else "dictionary-equals-reference", viols=vs)


def replay(case):
    return execute(case)["v"]


def run(ctx):
    accts = accounts(ctx)
    dims = {"src": list(range(len(SOURCES))), "testnet": NETS, "account": accts, "interval": INTERVALS}
    names = list(dims)
    cases = []
    if ctx.thorough:
        for combo in itertools.product(*[dims[n] for n in names]):
            cases.append(dict(zip(names, combo)))
    else:
        default = {n: dims[n][0] for n in names}
        for r in (0, 1, 2):
            for subset in itertools.combinations(names, r):
                for combo in itertools.product(*[dims[n][1:] for n in subset]):
                    c = dict(default)
                    c.update(zip(subset, combo))
                    cases.append(c)
    ctx.product("generate-vs-reference", cases, execute, chunk=1)
    bfs(ctx, "wallet-object-histories", WalletHistories(), 3 if ctx.thorough else 2, chunk=1)
    bfs(ctx, "two-wallets-same-master", SameMasterHistories(), 2, chunk=1)
    from ..bfs import eviction_probe
    eviction_probe(ctx, "wallet-object-histories+account-revisits", WalletHistories(), lambda i: ["gen", i, [0, 1]],
                   sizes=(1, 2, 3, 4, 5, 8) if ctx.thorough else (1, 2, 3, 4), chunk=1)
    if ctx.thorough:
        from ..bfs import long_histories
        long_histories(ctx, "wallet-object-histories+long", WalletHistories(), rotations=2, rounds=1, chunk=1)
    return {"sources": len(SOURCES), "accounts": accts, "intervals": INTERVALS, "deviation_bound": None if ctx.thorough else 2}
