"""C05 - every address is the standard encoding of the right script on the right network."""
from ..core import attempt, V, R, HarnessError
from ..ref import hd, secp, enc

LEVEL = "exploration"
P = "C05"
N = secp.N
KINDS = ("p2pkh", "p2wpkh", "p2sh_p2wpkh", "p2wsh", "p2sh_p2wsh")
RULE = ("public keys: scalars of the boundary alphabet, points lifted from x with 1/2/8/31 leading zero bytes and both parities, "
        "seeded generic points x {mainnet,testnet} x ALL five address kinds through the wallet API on public and private nodes, "
        "plus compressed/uncompressed P2PKH/P2WPKH through PublicKey.address; script builders and address helpers over 20/32-byte "
        "hash alphabets; RIPEMD-160 and HASH160 for ALL input lengths 0..1024 x 4 byte patterns. Oracle: independent Base58Check / "
        "Bech32 decoders give (version | hrp, witness version, program); expected hashes from OpenSSL RIPEMD-160 / hashlib SHA-256 "
        "over hand-assembled script templates. non-trivial = decoded and compared; distinct by construction"
        "; intermediate-corner classes (vf/corners.py) for x, HASH160, witness-script hash, nested script hashes and the four Base58 checksums; key objects parsed from either SEC form crossed with the requested form")


def expected(kind, pt, testnet, compressed=True):
    """(encoding, tag, payload) from templates"""
    h = enc.hash160(secp.sec(pt, compressed))
    ws = b"\x51\x21" + secp.sec(pt) + b"\x51\xae"
    if kind == "p2pkh":
        return "b58", 0x6F if testnet else 0x00, h
    if kind == "p2wpkh":
        return "bech32", "tb" if testnet else "bc", h
    if kind == "p2sh_p2wpkh":
        return "b58", 0xC4 if testnet else 0x05, enc.hash160(b"\x00\x14" + h)
    if kind == "p2wsh":
        return "bech32", "tb" if testnet else "bc", enc.sha256(ws)
    if kind == "p2sh_p2wsh":
        return "b58", 0xC4 if testnet else 0x05, enc.hash160(b"\x00\x20" + enc.sha256(ws))
    raise ValueError(kind)


def judge_addr(addr, kind, pt, testnet, compressed, seam):
    e, tag, payload = expected(kind, pt, testnet, compressed)
    net = "testnet" if testnet else "mainnet"
    if not isinstance(addr, str):
        return [V("%s:%s:%s:%s:not-a-string" % (P, seam, kind, net), "returned %r" % (addr,))]
    if e == "b58":
        try:
            raw = enc.b58check_decode(addr)
        except ValueError as ex:
            return [V("%s:%s:%s:%s:undecodable" % (P, seam, kind, net), "address %r does not Base58Check-decode (%s)" % (addr, ex))]
        if len(raw) != 21 or raw[0] != tag:
            return [V("%s:%s:%s:%s:wrong-version" % (P, seam, kind, net), "address %r has version %02x/len %d, expected %02x" % (addr, raw[0], len(raw), tag))]
        if raw[1:] != payload:
            return [V("%s:%s:%s:%s:wrong-hash" % (P, seam, kind, net), "address %r" % addr, raw[1:].hex(), payload.hex())]
    else:
        d = enc.segwit_decode(tag, addr)
        if d is None:
            other = enc.segwit_decode("bc" if tag == "tb" else "tb", addr)
            cls = "wrong-hrp" if other else "undecodable"
            return [V("%s:%s:%s:%s:%s" % (P, seam, kind, net, cls), "address %r does not decode as a %s segwit address" % (addr, tag))]
        if d[0] != 0 or d[1] != payload or addr != addr.lower():
            return [V("%s:%s:%s:%s:wrong-program" % (P, seam, kind, net), "address %r" % addr, "v%d %s" % (d[0], d[1].hex()), "v0 " + payload.hex())]
    return []


def chk_point(sec_hex, k, lite=False):
    from btc_hd_wallet.base_wallet import BaseWallet
    from btc_hd_wallet.bip32 import PubKeyNode, PrvKeyNode
    from btc_hd_wallet.keys import PublicKey
    pt = secp.parse_sec(bytes.fromhex(sec_hex))
    viols = []
    n = 0
    for testnet in (False, True):
        nodes = [("pub", PubKeyNode(key=secp.sec(pt), chain_code=b"\x11" * 32, testnet=testnet))]
        # the same key as the root of a wallet imported from an extended key (parsed nodes keep the 33-byte key field)
        rn = hd.node_from_pub(pt, b"\x11" * 32, 2, 7, b"\x01\x02\x03\x04")
        nodes.append(("pub-parsed", BaseWallet.from_extended_key(hd.xpub(rn, hd.version_for("pub", testnet, 44))).master))
        if lite:
            nodes = nodes[1:]
        if k is not None:
            nodes.append(("prv", PrvKeyNode(key=k.to_bytes(32, "big"), chain_code=b"\x11" * 32, testnet=testnet)))
            rp = hd.node_from_priv(k, b"\x11" * 32, 2, 7, b"\x01\x02\x03\x04")
            if not lite:
                nodes.append(("prv-parsed", BaseWallet.from_extended_key(hd.xprv(rp, hd.version_for("prv", testnet, 84))).master))
        if not lite:
            # a wallet whose master node was built with the OTHER network flag (plain constructor): the wallet's address methods
            # follow the wallet's network for all five kinds alike
            nodes.append(("pub-other-flag", PubKeyNode(key=secp.sec(pt), chain_code=b"\x11" * 32, testnet=not testnet)))
            if k is not None:
                nodes.append(("prv-other-flag", PrvKeyNode(key=k.to_bytes(32, "big"), chain_code=b"\x11" * 32, testnet=not testnet)))
        for nk, node in nodes:
            stw, w = attempt(lambda: BaseWallet(master=node, testnet=testnet))
            if stw != "ok":
                if nk.endswith("other-flag"):
                    continue          # refusing a wallet over a node of the other network is a legitimate answer to contradictory input
                viols.append(V("%s:BaseWallet:%s:refused" % (P, nk), "BaseWallet(master=<%s node>, testnet=%r) raised %s" % (nk, testnet, w)))
                continue
            for kind in KINDS:
                st, a = attempt(getattr(w, kind + "_address"), node)
                n += 1
                if st != "ok":
                    viols.append(V("%s:wallet.%s_address:%s:raised" % (P, kind, nk), "%s_address raised %s for key %s" % (kind, a, sec_hex)))
                    continue
                viols += judge_addr(a, kind, pt, testnet, True, "wallet")
        # the key object may have been PARSED from either SEC form, built from the point or from the private key: the requested
        # address form alone decides which encoding is hashed
        makers = {"parse(compressed)": lambda: PublicKey.parse(secp.sec(pt, True)), "parse(uncompressed)": lambda: PublicKey.parse(secp.sec(pt, False))}
        # other spellings of the same point that the parser may accept (hybrid 06/07 prefix, raw 64-byte x||y): if it does, the key
        # object is the same key - every requested form is computed from the point, not from the bytes it was parsed from
        unc = secp.sec(pt, False)
        for spell, raw_ in (("hybrid", bytes([6 + (pt[1] & 1)]) + unc[1:]), ("raw64", unc[1:])):
            st_, obj_ = attempt(PublicKey.parse, raw_)
            if st_ == "ok" and not lite:
                makers["parse(%s)" % spell] = (lambda r_: lambda: PublicKey.parse(r_))(raw_)
        if k is not None and not lite:
            from btc_hd_wallet.keys import PrivateKey
            makers["PrivateKey.K"] = lambda: PrivateKey(k).K
        for mname, mk_ in makers.items():
            for comp in (True, False):
                for kind in ("p2pkh", "p2wpkh"):
                    if kind == "p2wpkh" and not comp:
                        continue          # a witness program of an UNCOMPRESSED key is non-standard: the property does not say what it is
                    st, a = attempt(lambda: mk_().address(compressed=comp, testnet=testnet, addr_type=kind))
                    n += 1
                    if st != "ok":
                        viols.append(V("%s:PublicKey.address:%s:raised" % (P, kind), "%s.address(compressed=%r) raised %s" % (mname, comp, a)))
                        continue
                    viols += judge_addr(a, kind, pt, testnet, comp, "PublicKey.address" + ("" if comp else "(uncompressed)") + (":via-other-form" if ("uncompressed" in mname) == comp and mname != "PrivateKey.K" else ""))
    return n, viols


def chk_scripts(h20, h32):
    from btc_hd_wallet import script as S, helper as Hh
    viols = []
    n = 0
    tmpl = {"p2pkh_script": (h20, b"\x76\xa9\x14" + h20 + b"\x88\xac"), "p2sh_script": (h20, b"\xa9\x14" + h20 + b"\x87"),
            "p2wpkh_script": (h20, b"\x00\x14" + h20), "p2wsh_script": (h32, b"\x00\x20" + h32)}
    for name, (arg, exp) in tmpl.items():
        n += 1
        st, raw = attempt(lambda: getattr(S, name)(arg).raw_serialize())
        if st != "ok" or raw != exp:
            viols.append(V("%s:%s:template:wrong-bytes" % (P, name), name, raw.hex() if st == "ok" else raw, exp.hex()))
            continue
        st, ser = attempt(lambda: getattr(S, name)(arg).serialize())
        if st != "ok" or ser != bytes([len(exp)]) + exp:
            viols.append(V("%s:%s:template:wrong-serialize" % (P, name), name, ser.hex() if st == "ok" else ser, (bytes([len(exp)]) + exp).hex()))
    for testnet in (False, True):
        n += 4
        pairs = [("h160_to_p2pkh_address", h20, enc.b58check_encode((b"\x6f" if testnet else b"\x00") + h20)),
                 ("h160_to_p2sh_address", h20, enc.b58check_encode((b"\xc4" if testnet else b"\x05") + h20)),
                 ("h160_to_p2wpkh_address", h20, enc.segwit_encode("tb" if testnet else "bc", 0, h20)),
                 ("h256_to_p2wsh_address", h32, enc.segwit_encode("tb" if testnet else "bc", 0, h32))]
        for name, arg, exp in pairs:
            st, a = attempt(getattr(Hh, name), arg, testnet)
            if st != "ok" or a != exp:
                viols.append(V("%s:%s:%s:wrong-address" % (P, name, "testnet" if testnet else "mainnet"), name, a, exp))
    return n, viols


PATTERNS = {"00": lambda i, L: 0, "ff": lambda i, L: 255, "inc": lambda i, L: i % 256, "mix": lambda i, L: (i * 131 + L * 17 + 7) % 256}


def chk_hash(L, pat, salt):
    from btc_hd_wallet import helper, ripemd
    data = bytes((PATTERNS[pat](i, L) + (salt if pat == "mix" else 0)) % 256 for i in range(L))
    viols = []
    st, r = attempt(ripemd.ripemd160, data)
    if st != "ok" or r != enc.ripemd160(data):
        viols.append(V(P + ":ripemd160:len=%d:wrong-digest" % L, "ripemd160 of %d bytes (%s)" % (L, pat), r.hex() if st == "ok" else r, enc.ripemd160(data).hex()))
    st, r = attempt(helper.hash160, data)
    if st != "ok" or r != enc.hash160(data):
        viols.append(V(P + ":hash160:len=%d:wrong-digest" % L, "hash160 of %d bytes (%s)" % (L, pat), r.hex() if st == "ok" else r, enc.hash160(data).hex()))
    return viols


HOPS = [["addr", c, t, a] for a in ("p2pkh", "p2wpkh") for c in (True, False) for t in (False, True)] + \
       [["sec", True], ["sec", False], ["h160", True], ["h160", False]] + [["wallet", kind] for kind in KINDS] + \
       [["bad_addr"], ["clone", "copy.copy"], ["clone", "pickle"]]
HK = 0x00000000000000000000000000000000000000000000000000000000deadbeef


class KeyObjectHistories:
    """requests on ONE PublicKey / node / wallet object in sequence: every answer must be what a fresh object gives.
    canon = the history (per-object caches cannot be observed)."""

    def ops(self, hist):
        return HOPS

    def run(self, hist):
        from btc_hd_wallet.base_wallet import BaseWallet
        from btc_hd_wallet.bip32 import PrvKeyNode
        from btc_hd_wallet.keys import PublicKey
        pt = secp.pub(HK)
        pk = PublicKey.parse(secp.sec(pt))
        node = PrvKeyNode(key=HK.to_bytes(32, "big"), chain_code=b"\x07" * 32, testnet=True)
        w = BaseWallet(master=node, testnet=True)
        viols, label = [], "init"
        for n, op in enumerate(hist):
            last = n == len(hist) - 1
            if op[0] == "bad_addr":
                attempt(pk.address, True, False, "p2tr-not-supported")      # a request that fails; only its after-effects matter
                attempt(pk.address, False, True, None)
                vs = []
            elif op[0] == "clone":
                from .. import hdscen
                pk = dict(hdscen.clones(pk)).get(op[1], pk)                  # later requests go to the duplicate
                node2 = dict(hdscen.clones(node)).get(op[1], node)
                node, w = node2, BaseWallet(master=node2, testnet=True)
                vs = []
            elif op[0] == "addr":
                st, a = attempt(pk.address, op[1], op[2], op[3])
                if op[3] == "p2wpkh" and not op[1]:
                    vs = []           # executed as part of the history, not judged (see chk_point)
                else:
                    vs = judge_addr(a, op[3], pt, op[2], op[1], "PublicKey.address(history)") if st == "ok" else [V(P + ":PublicKey.address:history:raised", str(a))]
            elif op[0] == "sec":
                st, a = attempt(pk.sec, op[1])
                vs = [] if st == "ok" and a == secp.sec(pt, op[1]) else [V(P + ":sec:history:wrong-bytes", "sec(%r) after %r" % (op[1], hist[:n]))]
            elif op[0] == "h160":
                st, a = attempt(pk.h160, op[1])
                vs = [] if st == "ok" and a == enc.hash160(secp.sec(pt, op[1])) else [V(P + ":h160:history:wrong-digest", "h160(%r) after %r" % (op[1], hist[:n]))]
            else:
                st, a = attempt(getattr(w, op[1] + "_address"), node)
                vs = judge_addr(a, op[1], pt, True, True, "wallet(history)") if st == "ok" else [V(P + ":wallet:history:raised", str(a))]
            if last:
                for v in vs:
                    v["msg"] = "after %r on the same objects: %s" % (hist[:-1], v["msg"])
                viols, label = vs, ("violation" if vs else "answer-ok")
        return {"canon": hist, "viols": viols, "label": label}


def _ev_hash(i):
    data = (b"C05-ev-%d" % i) * (1 + i % 3)
    return chk_hash_data(data)


def chk_hash_data(data):
    from btc_hd_wallet import helper, ripemd
    viols = []
    st, r = attempt(ripemd.ripemd160, data)
    if st != "ok" or r != enc.ripemd160(data):
        viols.append(V(P + ":ripemd160:revisit:wrong-digest", "ripemd160 of %r" % data[:16]))
    st, r = attempt(helper.hash160, data)
    if st != "ok" or r != enc.hash160(data):
        viols.append(V(P + ":hash160:revisit:wrong-digest", "hash160 of %r" % data[:16]))
    return viols


def execute(case):
    k = case.get("k")
    if "hist" in case and case.get("layer") == "hash-revisits":
        from ..core import isolated
        from ..bfs import PureCalls
        r = isolated(PureCalls(10**6, _ev_hash, P).run, case["hist"])
        for v in r["viols"]:
            v["case"] = case
        return R(r["label"], viols=r["viols"])
    if "hist" in case:
        from ..core import isolated
        r = isolated(KeyObjectHistories().run, case["hist"])
        for v in r["viols"]:
            v["case"] = case
        return R(r["label"], viols=r["viols"])
    if k == "point":
        n, vs = chk_point(case["sec"], int(case["scalar"], 16) if case.get("scalar") else None, case.get("lite", False))
        return R("violation" if vs else "addresses-ok", viols=vs, n=n)
    if k == "scripts":
        n, vs = chk_scripts(bytes.fromhex(case["h20"]), bytes.fromhex(case["h32"]))
        return R("violation" if vs else "templates-ok", viols=vs, n=n)
    if k == "hash":
        vs = chk_hash(case["L"], case["pat"], case.get("salt", 0))
        return R("violation" if vs else "digest-ok", viols=vs, n=2)
    raise ValueError(k)


def replay(case):
    return execute(case)["v"]


def lifted_points(ctx):
    """points chosen by x (no scalar known): x with 31, 8, 2, 1 leading zero bytes, both parities"""
    r = ctx.rng("x")
    pts = []
    for zeros in (31, 31, 8, 2, 2, 1, 1, 0):
        while True:
            x = int.from_bytes(b"\x00" * zeros + bytes([r.randrange(1, 256)]) + bytes(r.randrange(256) for _ in range(31 - zeros)), "big")
            y = secp.lift_x(x, False)
            if y is not None:
                break
        pts.append((x, y))
        pts.append((x, secp.P - y))
    return pts


def run(ctx):
    r = ctx.rng("keys")
    ks = [1, 2, 3, 122, 153, 0xff, 2**31, 2**255, (N - 1) // 2, N - 2, N - 1]   # 122: y has a leading zero byte, 153: x has one + [r.randrange(1, N) for _ in range(20 if ctx.thorough else 3)]
    # keys whose witness-script hash / key hash starts with five zero bits (found by search with the reference)
    found, k = [], 2
    while len(found) < 2 and k < 4000:
        pt = secp.pub(k)
        if enc.sha256(hd.witness_script_1of1(pt))[0] < 8 or enc.hash160(secp.sec(pt))[0] < 8:
            found.append(k)
        k += 1
    ks += found
    cases = [{"k": "point", "sec": secp.sec(secp.pub(k)).hex(), "scalar": "%x" % k} for k in ks]
    pts = lifted_points(ctx)
    cases += [{"k": "point", "sec": secp.sec(p).hex()} for p in (pts if ctx.thorough else pts[:10])]
    ctx.product("keys-x-networks-x-kinds", cases, execute, chunk=1)
    # corner classes of the COMPUTED intermediates (vf/corners.py): for every byte position of the x coordinate, the key hash,
    # the witness-script hash, the two nested script hashes and the four Base58 checksums a key where that byte is 00 / ff;
    # for every value 0..255 a key where the first / the last byte of each has that value; pairs sharing first / last byte
    from .. import corners
    base = int.from_bytes(enc.sha256(b"C05-corner-base-%d" % ctx.seed), "big") % (N - 10**6) + 1

    def cands():
        for k, pt in corners.scalar_walk(base, secp):
            s_ = secp.sec(pt)
            h = enc.hash160(s_)
            w = enc.sha256(b"\x51\x21" + s_ + b"\x51\xae")
            shw, shs = enc.hash160(b"\x00\x14" + h), enc.hash160(b"\x00\x20" + w)
            yield k, {"x": s_[1:], "h160": h, "wsh": w, "sh_wpkh": shw, "sh_wsh": shs, "ck_pkh": enc.hash256(b"\x00" + h)[:4],
                      "ck_pkh_t": enc.hash256(b"\x6f" + h)[:4], "ck_sh": enc.hash256(b"\x05" + shw)[:4], "ck_sh_t": enc.hash256(b"\xc4" + shs)[:4]}
    shape = {"x": 32, "h160": 20, "wsh": 32, "sh_wpkh": 20, "sh_wsh": 20, "ck_pkh": 4, "ck_pkh_t": 4, "ck_sh": 4, "ck_sh_t": 4}
    kept, st = corners.cover(cands(), shape, 60000, pairs=ctx.thorough)
    ctx.extra["intermediate_corner_classes"] = st
    if st["covered"] != st["classes"]:
        raise HarnessError("corner cover incomplete: %r" % (st,))
    ctx.product("intermediate-corners", [{"k": "point", "sec": secp.sec(secp.pub(k)).hex(), "scalar": "%x" % k, "lite": True} for k, _ in kept],
                execute, chunk=8)
    hs = [("00" * 20, "00" * 32), ("ff" * 20, "ff" * 32), ("00" * 19 + "01", "80" + "00" * 31)]
    # leading zero BITS of the program (5-bit regrouping): first byte 00, 07 (five zero bits), 08, 0f
    hs += [("%02x" % b + "%038x" % r.getrandbits(152), "%02x" % b + "%062x" % r.getrandbits(248)) for b in (0x00, 0x07, 0x08, 0x0f, 0x10)]
    hs += [("%040x" % r.getrandbits(160), "%064x" % r.getrandbits(256)) for _ in range(8 if ctx.thorough else 3)]
    # hashes (found by search) whose Base58Check address contains an ALIGNED group of four zero digits ("1111"), inner or
    # least significant - the boundary class of a radix conversion that works on groups of digits
    zg = ["179ce2c4d9144f0923758f80ef6d52562388047b", "c8e462ec113f72cf73fe705fb914514184944c91", "b7e49df8efe0e30c15e3dbfe30c954ca30ba613d",
          "d74aabb4ea691d7be4e1991f50c8366496f68370", "9f9e3a1295c6efc09614e5e0c73653632fffb42b", "1ed485ef8aa5c25423c000b264b956addc845001",
          "e3a9f9fe36ce4d4054a68af9bbb04cb3058cb860"]
    assert "1111" in enc.b58check_encode(b"\x00" + bytes.fromhex(zg[0])) and "1111" in enc.b58check_encode(b"\xc4" + bytes.fromhex(zg[6]))
    hs += [(h, "%064x" % r.getrandbits(256)) for h in zg]
    ctx.product("script-templates-and-helpers", [{"k": "scripts", "h20": a, "h32": b} for a, b in hs], execute, parallel=False)
    cases = [{"k": "hash", "L": L, "pat": p, "salt": ctx.seed % 251} for L in range(0, 1025) for p in PATTERNS]
    if ctx.thorough:
        cases += [{"k": "hash", "L": L, "pat": "mix", "salt": (ctx.seed + 1) % 251} for L in range(1025, 4200, 1)]
    ctx.product("hash-all-lengths", cases, execute)
    from ..bfs import bfs
    bfs(ctx, "key-object-histories", KeyObjectHistories(), 3 if ctx.thorough else 2)
    from ..bfs import long_histories
    long_histories(ctx, "key-object-histories+long", KeyObjectHistories(), rotations=8 if ctx.thorough else 4, rounds=2)
    from ..bfs import eviction_probe, PureCalls
    eviction_probe(ctx, "hash-revisits", PureCalls(10**6, _ev_hash, P), lambda i: i,
                   sizes=(1, 2, 3, 4, 8, 9, 16, 17, 32, 33, 64, 65, 128, 129, 256, 257, 512, 513) + ((1024, 1025, 2048, 2049) if ctx.thorough else ()))
    return {}
