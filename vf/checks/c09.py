"""C09 - key encodings (WIF, SEC) round-trip and out-of-range keys are rejected."""
from ..core import attempt, V, R, HarnessError
from ..ref import hd, secp, enc

LEVEL = "exploration"
P = "C09"
N = secp.N
RULE = ("scalars: boundary alphabet K + ALL powers of two 2^0..2^255 + seeded generic, each x {compressed, uncompressed} x "
        "{mainnet, testnet} through every constructor (int, bytes, from_int, parse, from_wif); rejection: 0, n, n+1, 2^256-1, 2^256, "
        "-1 in int/bytes/WIF form, ALL byte lengths 0..40 except 32; PublicKey.parse: ALL 256 prefix bytes over valid x (33 and 65 "
        "byte forms), x=1..64 classified by the reference lift_x, x>=p, off-curve y, ALL lengths 0..40 except 33; WIF first "
        "character at the payload extremes. non-trivial = compared with own curve arithmetic / refusal observed; distinct by "
        "construction"
        "; intermediate-corner classes (vf/corners.py) for x, y and the four WIF checksums")


def keys():
    from btc_hd_wallet import keys as K
    return K


def chk_scalar(k):
    K = keys()
    viols = []
    kb = k.to_bytes(32, "big")
    pt = secp.pub(k)
    ctors = {"PrivateKey(int)": lambda: K.PrivateKey(k), "PrivateKey(bytes)": lambda: K.PrivateKey(kb),
             "from_int": lambda: K.PrivateKey.from_int(k), "parse": lambda: K.PrivateKey.parse(kb)}
    objs = {}
    for name, f in ctors.items():
        st, o = attempt(f)
        if st != "ok":
            return "violation", [V("%s:%s:valid-scalar:refused" % (P, name), "%s refused valid scalar %x: %s" % (name, k, o))]
        objs[name] = o
        if bytes(o) != kb:
            viols.append(V("%s:%s:valid-scalar:wrong-bytes" % (P, name), "bytes(key) for %x" % k, bytes(o).hex(), kb.hex()))
    o = objs["PrivateKey(int)"]
    if not all(o == x for x in objs.values()):
        viols.append(V(P + ":PrivateKey.__eq__:valid-scalar:unequal", "constructors disagree for %x" % k))
    # different keys must not compare equal: the negated point (same x), the neighbour scalar
    st, negk = attempt(K.PublicKey.parse, secp.sec(secp.neg(pt)))
    if st == "ok" and (negk == o.K or o.K == negk):
        viols.append(V(P + ":PublicKey.__eq__:negated-point:equal", "%x*G and its negation (same x, other parity) compare equal" % k))
    if k + 1 < N:
        st, nb = attempt(K.PrivateKey, k + 1)
        if st == "ok" and (nb == o or nb.K == o.K):
            viols.append(V(P + ":__eq__:neighbour-scalar:equal", "keys %x and %x compare equal" % (k, k + 1)))
    for c in (True, False):
        s = o.K.sec(compressed=c)
        exp = secp.sec(pt, c)
        if s != exp:
            viols.append(V("%s:sec:%s:wrong-bytes" % (P, "compressed" if c else "uncompressed"), "sec of %x*G" % k, s.hex(), exp.hex()))
            continue
        st, pk = attempt(K.PublicKey.parse, s)
        if st != "ok" or not (pk == o.K) or pk.sec(True) != secp.sec(pt, True) or pk.sec(False) != secp.sec(pt, False):
            viols.append(V("%s:PublicKey.parse:%s:roundtrip" % (P, "compressed" if c else "uncompressed"),
                           "parse(sec(%x*G)) -> %r" % (k, pk if st != "ok" else "different key")))
        for t in (False, True):
            w = o.wif(compressed=c, testnet=t)
            ew = hd.wif(k, c, t)
            flavour = ("c" if c else "u") + ("t" if t else "m")
            if w != ew:
                viols.append(V("%s:wif:%s:wrong-string" % (P, flavour), "wif of %x" % k, w, ew))
                continue
            first = {"cm": "KL", "ct": "c", "um": "5", "ut": "9"}[flavour]
            if w[0] not in first:
                viols.append(V("%s:wif:%s:first-char" % (P, flavour), "first character of %s" % w, w[0], first))
            st, back = attempt(K.PrivateKey.from_wif, w)
            if st != "ok" or bytes(back) != kb or back.K.sec() != secp.sec(pt):
                viols.append(V("%s:from_wif:%s:roundtrip" % (P, flavour), "from_wif(%s) for scalar %x -> %s" % (
                    w, k, back if st != "ok" else bytes(back).hex())))
                continue
            # a key IMPORTED from one flavour exports every flavour correctly (the import form must leave no trace), twice
            for rep in (0, 1):
                for c2 in (True, False):
                    for t2 in (False, True):
                        st2, w2 = attempt(back.wif, compressed=c2, testnet=t2)
                        if st2 != "ok" or w2 != hd.wif(k, c2, t2):
                            viols.append(V("%s:wif:imported-%s:export-%s" % (P, flavour, ("c" if c2 else "u") + ("t" if t2 else "m")),
                                           "key imported from %s, wif(compressed=%r, testnet=%r)" % (w, c2, t2), w2, hd.wif(k, c2, t2)))
            for c2 in (True, False):
                if back.K.sec(compressed=c2) != secp.sec(pt, c2):
                    viols.append(V("%s:sec:imported-%s:wrong-bytes" % (P, flavour), "sec(compressed=%r) of the key imported from %s" % (c2, w)))
    # duplicates (copy.copy / copy.deepcopy / pickle round trip) of the key objects encode exactly like the originals
    from .. import hdscen
    for label, obj in (("PrivateKey", o), ("PublicKey", o.K)):
        for how, c in hdscen.clones(obj):
            pub = c.K if label == "PrivateKey" else c
            st, got = attempt(lambda: [pub.sec(True), pub.sec(False), pub.sec()] + ([c.wif(True, False), c.wif(False, True), bytes(c)] if label == "PrivateKey" else []))
            exp = [secp.sec(pt, True), secp.sec(pt, False), secp.sec(pt, True)] + ([hd.wif(k, True, False), hd.wif(k, False, True), kb] if label == "PrivateKey" else [])
            if st != "ok" or got != exp:
                viols.append(V("%s:clone:%s:%s:differs" % (P, label, how), "%s of the %s of scalar %x encodes differently" % (how, label, k),
                               str([x.hex() if isinstance(x, bytes) else x for x in got] if st == "ok" else got)[:200]))
    return ("violation" if viols else "scalar-ok"), viols


def chk_bad_scalar(form, val):
    """every constructor must refuse. form: int | bytes | wif"""
    K = keys()
    viols = []
    if form == "int":
        v = int(val)
        tries = {"PrivateKey(int)": lambda: K.PrivateKey(v), "from_int": lambda: K.PrivateKey.from_int(v)}
        cls = "scalar=0" if v == 0 else "scalar>=n" if v >= N else "scalar<0"
    elif form == "bytes":
        b = bytes.fromhex(val)
        tries = {"PrivateKey(bytes)": lambda: K.PrivateKey(b), "parse": lambda: K.PrivateKey.parse(b)}
        if len(b) != 32:
            cls = "len!=32"
        else:
            iv = int.from_bytes(b, "big")
            cls = "scalar=0" if iv == 0 else "scalar>=n"
    else:
        tries = {"from_wif": lambda: K.PrivateKey.from_wif(val)}
        cls = "wif-bad-scalar"
    for name, f in tries.items():
        st, o = attempt(f)
        if st == "ok":
            viols.append(V("%s:%s:%s:accepted" % (P, name, cls), "%s accepted %s %r -> key %s" % (name, form, str(val)[:70], bytes(o).hex())))
    return ("violation" if viols else "refused-" + cls), viols


def chk_pub_bytes(b):
    """strict reference decides: 02/03/04 encodings of curve points parse to that point, everything else raises
    (hybrid 06/07 of a curve point: judged for consistency only)"""
    K = keys()
    st, pk = attempt(K.PublicKey.parse, b)
    try:
        pt = secp.parse_sec(b)
    except ValueError:
        pt = None
    hybrid = len(b) == 65 and b[0] in (6, 7)
    if hybrid:
        x, y = int.from_bytes(b[1:33], "big"), int.from_bytes(b[33:], "big")
        valid_h = secp.on_curve((x, y)) and x < secp.P and y < secp.P and (y & 1) == (b[0] & 1)
        if st != "ok":
            return "hybrid-refused", []
        if not valid_h or pk.sec(False) != secp.sec((x, y), False):
            return "violation", [V(P + ":PublicKey.parse:hybrid:inconsistent", "hybrid encoding %s accepted inconsistently" % b.hex()[:40])]
        return "hybrid-accepted-consistently", []
    if pt is None:
        if st == "ok":
            if len(b) not in (33, 65):
                cls = "len=%d" % len(b) if len(b) <= 40 else "len>40"
            elif b[0] not in (2, 3, 4):
                cls = "wrong-prefix"
            else:
                cls = "not-on-curve"
            if cls == "len>40":
                return "observed-long-raw-accepted", []
            return "violation", [V("%s:PublicKey.parse:%s:accepted" % (P, cls), "PublicKey.parse accepted %s -> %s" % (b.hex()[:70], pk.sec().hex()))]
        return "refused-invalid-encoding", []
    if st != "ok":
        return "violation", [V(P + ":PublicKey.parse:valid-point:refused", "valid SEC %s refused: %s" % (b.hex()[:70], pk))]
    if pk.sec(True) != secp.sec(pt, True) or pk.sec(False) != secp.sec(pt, False):
        return "violation", [V(P + ":PublicKey.parse:valid-point:wrong-point", "parse(%s)" % b.hex()[:70], pk.sec().hex(), secp.sec(pt).hex())]
    return "parsed-to-reference-point", []


def _hist_encodings():
    pt = secp.pub(0xC0FFEE)
    pt2 = secp.pub(5)
    out = []
    for p in (pt, secp.neg(pt), pt2):
        out += [secp.sec(p, True).hex(), secp.sec(p, False).hex()]
    return out


def _ev_sec(i):
    """SEC encodings of many distinct points (lifted from small x, so no scalar multiplication is needed)"""
    x = 1000 + i
    while secp.lift_x(x, False) is None:
        x += 100003
    return secp.sec((x, secp.lift_x(x, bool(i % 4 == 0))), compressed=(i % 3 != 0)).hex()


class ParseHistories:
    """PublicKey.parse / PrivateKey construction calls in sequence within one process (a point and its negation share x;
    k and n-k share x): every answer must equal the answer of a fresh process. canon = the history."""

    def ops(self, hist):
        return [["pub", e] for e in _hist_encodings()] + [["prv", "%x" % k] for k in (0xC0FFEE, N - 0xC0FFEE)] + \
               [["badprv", "bytes", "c0ffee"], ["badprv", "bytes", "00" * 30 + "c0ffee"], ["badprv", "bytes", "00" * 9 + "%064x" % 0xC0FFEE],
                ["badprv", "int", str(0xC0FFEE + N)]]

    def run(self, hist):
        viols, label = [], "init"
        for n, op in enumerate(hist):
            if op[0] == "pub":
                o, vs = chk_pub_bytes(bytes.fromhex(op[1]))
            elif op[0] == "badprv":
                o, vs = chk_bad_scalar(op[1], op[2])      # another (invalid) spelling of a scalar that may just have been accepted
            else:
                o, vs = chk_scalar(int(op[1], 16))
            if n == len(hist) - 1:
                for v in vs:
                    v["key"] = v["key"] + ":history"
                    v["msg"] = "after %r in the same process: %s" % (hist[:-1], v["msg"])
                viols, label = vs, o
        return {"canon": hist, "viols": viols, "label": label}


def execute(case):
    k = case.get("k")
    if "hist" in case:
        from ..core import isolated
        r = isolated(ParseHistories().run, case["hist"])
        for v in r["viols"]:
            v["case"] = case
        return R(r["label"], viols=r["viols"])
    if k == "scalar":
        o, vs = chk_scalar(int(case["v"], 16))
    elif k == "bad":
        o, vs = chk_bad_scalar(case["form"], case["val"])
    elif k == "pub":
        o, vs = chk_pub_bytes(bytes.fromhex(case["hex"]))
    elif k == "wif_extremes":
        vs = []
        for c, t, lo, hi in ((True, False, "K", "L"), (True, True, "c", "c"), (False, False, "5", "5"), (False, True, "9", "9")):
            pre = b"\xef" if t else b"\x80"
            suf = b"\x01" if c else b""
            ext = [enc.b58encode(pre + b"\x00" * 32 + suf + b"\x00" * 4)[0], enc.b58encode(pre + b"\xff" * 32 + suf + b"\xff" * 4)[0]]
            if ext[0] < lo or ext[1] > hi:
                vs.append(V(P + ":wif:first-char:extremes", "payload extremes give %r, expected within %s..%s" % (ext, lo, hi)))
        o = "violation" if vs else "wif-extremes-ok"
    else:
        raise ValueError(k)
    return R(o, viols=vs)


def replay(case):
    return execute(case)["v"]


def run(ctx):
    r = ctx.rng("scalars")
    # 122/130: y with a leading zero byte; 153/246: x with a leading zero byte (checked below)
    assert secp.pub(122)[1] < 2**248 and secp.pub(153)[0] < 2**248
    ks = {122, 130, 153, 246, 1, 2, 3, 0xff, 2**31, 2**64 - 1, 2**255, (N - 1) // 2, N - 2, N - 1, 2**248 - 1, 2**192 + 5, 2**128 - 1, 2**8}
    ks.update(2**i for i in range(256))
    ks.update(int.from_bytes(b"\x00" * z + bytes(r.randrange(1, 256) for _ in range(32 - z)), "big") for z in (1, 2, 8, 16, 31))
    ks.update(r.randrange(1, N) for _ in range(40 if ctx.thorough else 8))
    if ctx.thorough:
        ks.update(2**i - 1 for i in range(2, 256))
        ks.update(N - 2**i for i in range(0, 255))
    ks = sorted(k for k in ks if 0 < k < N)
    ctx.product("valid-scalars", [{"k": "scalar", "v": "%x" % k} for k in ks], execute)
    # corner classes of the computed intermediates (vf/corners.py): x, y, the four WIF checksums and the low scalar bytes -
    # a scalar for every byte position being 00 / ff and for every first / last byte value
    from .. import corners
    base = int.from_bytes(enc.sha256(b"C09-corner-base-%d" % ctx.seed), "big") % (N - 10**6) + 1

    def cands():
        for k, pt in corners.scalar_walk(base, secp):
            kb = k.to_bytes(32, "big")
            f = {"x": pt[0].to_bytes(32, "big"), "y": pt[1].to_bytes(32, "big"), "klow": kb[-2:]}
            for t in (False, True):
                for c in (True, False):
                    f["ck_%d%d" % (t, c)] = enc.hash256((b"\xef" if t else b"\x80") + kb + (b"\x01" if c else b""))[:4]
            yield k, f
    shape = {"x": 32, "y": 32, "klow": 2, "ck_00": 4, "ck_01": 4, "ck_10": 4, "ck_11": 4}
    kept, st = corners.cover(cands(), shape, 60000, pairs=ctx.thorough, impossible=[("z", "klow", 0), ("f", "klow", 0)] + [
        (w, "klow", c) for w in ("first",) for c in range(256)])
    ctx.extra["intermediate_corner_classes"] = st
    if st["covered"] != st["classes"]:
        raise HarnessError("corner cover incomplete: %r" % (st,))
    ctx.product("intermediate-corners", [{"k": "scalar", "v": "%x" % k} for k, _ in kept], execute, chunk=8)
    bad = []
    for v in (0, N, N + 1, 2**256 - 1, 2**256, 2**256 + 1, -1, -N, 2**300):
        bad.append({"k": "bad", "form": "int", "val": str(v)})
    for v in (0, N, N + 1, 2**256 - 1, N + 2**128):
        bad.append({"k": "bad", "form": "bytes", "val": "%064x" % v})
        for c in (True, False):
            for t in (True, False):
                bad.append({"k": "bad", "form": "wif", "val": enc.b58check_encode(
                    (b"\xef" if t else b"\x80") + v.to_bytes(32, "big") + (b"\x01" if c else b""))})
    for L in range(0, 41):
        if L == 32:
            continue
        for pat in (b"\x01", b"\x00", b"\xff", b"\x7f"):
            bad.append({"k": "bad", "form": "bytes", "val": (pat * L).hex()})
        good32 = (0x1234567890ABCDEF << 64 | 0x42).to_bytes(32, "big")
        if L > 32:   # a valid scalar wrapped in padding / marker bytes is still a byte string of the wrong length
            for wrapped in (b"\x00" * (L - 32) + good32, good32 + b"\x00" * (L - 32), good32 + b"\x01" * (L - 32), b"\x80" + good32 + b"\x01" * (L - 33)):
                bad.append({"k": "bad", "form": "bytes", "val": wrapped[:L].hex()})
        else:        # minimal-length encodings of small valid scalars
            bad.append({"k": "bad", "form": "bytes", "val": ((1 << (8 * L)) - 1 if L else 0).to_bytes(L, "big").hex()})
            if L:
                bad.append({"k": "bad", "form": "bytes", "val": (1).to_bytes(L, "big").hex()})
    ctx.product("invalid-scalars", bad, execute)
    pubs = []
    base_pts = [secp.pub(k) for k in (1, 2, 7, N - 1, r.randrange(1, N), r.randrange(1, N))]
    for pt in base_pts[:4 if not ctx.thorough else 6]:
        xb, yb = pt[0].to_bytes(32, "big"), pt[1].to_bytes(32, "big")
        nyb = (secp.P - pt[1]).to_bytes(32, "big")
        for pre in range(256):
            pubs.append({"k": "pub", "hex": (bytes([pre]) + xb).hex()})
            pubs.append({"k": "pub", "hex": (bytes([pre]) + xb + yb).hex()})
        pubs.append({"k": "pub", "hex": (b"\x04" + xb + nyb).hex()})
        pubs.append({"k": "pub", "hex": (b"\x04" + xb + ((pt[1] + 1) % secp.P).to_bytes(32, "big")).hex()})
        pubs.append({"k": "pub", "hex": (b"\x04" + xb + b"\x00" * 32).hex()})
        pubs.append({"k": "pub", "hex": (b"\x06" + xb + nyb).hex()})
        pubs.append({"k": "pub", "hex": (b"\x07" + xb + nyb).hex()})
        pubs.append({"k": "pub", "hex": (xb + yb).hex()})
    for x in list(range(0, 65)) + [secp.P - 1, secp.P, secp.P + 1, secp.P + 2, secp.P + 7, 2**256 - 1, 2**255]:
        for pre in (2, 3):
            pubs.append({"k": "pub", "hex": (bytes([pre]) + x.to_bytes(32, "big")).hex()})
    for y in (secp.P, secp.P + 1, 2**256 - 1):
        pubs.append({"k": "pub", "hex": (b"\x04" + (1).to_bytes(32, "big") + y.to_bytes(32, "big")).hex()})
    x1 = base_pts[0][0].to_bytes(32, "big")
    for L in range(0, 41):
        if L == 33:
            continue
        for first in (2, 3, 4, 0):
            pubs.append({"k": "pub", "hex": ((bytes([first]) + x1 + x1)[:L]).hex()})
    ctx.product("public-key-encodings", pubs, execute)
    ctx.product("wif-first-char-extremes", [{"k": "wif_extremes"}, {"k": "scalar", "v": "%x" % (N - 1)}, {"k": "scalar", "v": "1"}], execute,
                parallel=False)
    from ..bfs import bfs
    bfs(ctx, "parse-call-histories", ParseHistories(), 3 if ctx.thorough else 2)
    from ..bfs import long_histories
    long_histories(ctx, "parse-call-histories+long", ParseHistories(), rotations=8 if ctx.thorough else 4, rounds=3)
    from ..bfs import eviction_probe
    eviction_probe(ctx, "parse-call-histories+revisits", ParseHistories(), lambda i: ["prv", "%x" % (0xC0FFEE + 7 * i)] if i % 2 else ["pub", _ev_sec(i)])
    return {}
