"""C20 - CLI: bad arguments yield no wallet output; good ones equal the API result."""
import itertools
import json
import re

from ..core import attempt, V, R, HarnessError
from ..ref import hd
from .. import cli, hdscen

LEVEL = "exploration"
P = "C20"
H = hd.H
RULE = ("argument vectors = every vector within <=1 (quick) / <=2 (thorough) deviations of each sub-command's default vector over the "
        "dimensions -f{7 file-system states} x --testnet x --paranoia x --account{8} x --interval{10} x secret{valid and invalid forms} "
        "x --password x --mnemonic-len, plus the no-command vector; each run in-process in a fresh prepared directory that is "
        "snapshotted before/after; a fixed subset is also run as a real subprocess and must agree. Oracle: outcome is REFUSED "
        "(status!=0, no wallet token on stdout, directory unchanged) or SERVED (status 0, JSON == library API for the same inputs, "
        "reference paranoia filter applied, rows BIP44-shaped, nothing pre-existing modified); vectors made only of clearly good values must be SERVED, vectors containing a "
        "clearly bad value must be REFUSED. non-trivial = a verdict was reached by comparing with the API / snapshots; distinct = "
        "distinct argv"
        "; --paranoia combined with every interval and account value (stdout and file) for two sub-commands; accounts whose extended private key text contains a schema field name; output compared one-sidedly (every field of the API result present and equal; a paranoia run may not carry any string the filter removes)")

MN12 = "legal winner thank year wave sausage worth useful legal winner thank yellow"
MN24 = "letter advice cage absurd amount doctor acoustic avoid letter advice cage absurd amount doctor acoustic avoid letter advice cage absurd amount doctor acoustic bless"
SEED = "5eb00bbddcf069084889a8ab9155568165f5c453ccb85e70811aaed6f6da5fc19a5ac40b389cd370d086206dec8aa6c43daea6690f20ad3d8d48b2d2ce9e38e4"
ROOT = {"k": 0x3C6CB8D0F6A264C91EA8B5030FADAA8E538B020F0A387421A12DE9319DC93368, "chain": "2a" * 32}
UNI = "pässwörd ﬁ 𝔘"

G, B, E = "good", "bad", "either"


def xk(kind, testnet, bip, pub=False):
    n = hdscen.ref_root(dict(ROOT))
    v = hd.version_for("pub" if pub else "prv", testnet, bip)
    return hd.xpub(n, v) if pub else hd.xprv(n, v)


_PURP = {}


def _acct_text_feats(a):
    """reference only: the three account extended private keys (mainnet) of account a below ROOT, as text"""
    out = {}
    for p in (44, 49, 84):
        if p not in _PURP:
            _PURP[p] = hd.derive(hdscen.ref_root(dict(ROOT)), [H + p, H])
        out["x%d" % p] = hd.xprv(hd.ckd_priv(_PURP[p], H + a), hd.version_for("prv", False, p)).encode()
    return out


def bad_checksum(s):
    c = "2" if s[-1] != "2" else "3"
    return s[:-1] + c


DIM_GLOBAL = {
    "file": [(None, G), ("out.json", G), ("exists.json", B), ("adir", B), ("link.json", B), ("dangling.json", E), ("nodir/out.json", B),
             ("sub/../out2.json", B)],
    "testnet": [(False, G), (True, G)],
    "paranoia": [(False, G), (True, G)],
    "account": [(None, G), ("0", G), ("5", G), (str(H - 2), G), ("49", G), ("84", G), ("1_0", E), (" 7", E), ("+3", E), ("007", E), (str(H - 1), E), ("-1", B), ("x", B), (str(H), B)],
    "interval": [(("0", "1"), G), (None, G), (("10", "50"), G), (("0", "0"), E), (("3", "1"), E), (("0_1", "0_3"), E), (("+1", " 2"), E), ((str(H - 1), str(H)), E), ((str(H), str(H + 1)), B),
                 ((str(2**32 - 3), str(2**32 - 2)), B), (("-1", "1"), B), (("a", "1"), B), (("5",), B), ((str(H - 2), str(H + 1)), B)],
}


def dims_for(cmd):
    d = dict(DIM_GLOBAL)
    if cmd == "new":
        d["len"] = [(None, G), ("12", G), ("15", G), ("18", G), ("21", G), ("24", G), ("13", B), ("0", B)]
        d["password"] = [(None, G), (UNI, G), ("", G)]
    elif cmd == "from-master-xprv":
        x = xk("prv", False, 44)
        d["secret"] = [(x, G), (xk("prv", True, 44), G), (xk("prv", False, 84), G), (xk("prv", True, 49), G), (x[:-1], B), (x + "1", B),
                       (bad_checksum(x), B), (xk("pub", False, 44, pub=True), E)]
    elif cmd == "from-mnemonic":
        d["secret"] = [(MN12, G), (MN24, G), (" ".join(MN12.split()[:11]), B), (MN12 + " able", B),
                       ("zzz " * 11 + "zzz", E)]
        d["password"] = [(None, G), (UNI, G), ("TREZOR", G)]
    elif cmd == "from-bip39-seed":
        d["secret"] = [(SEED, G), ("00" * 64, G), (SEED[:-2], B), (SEED + "00", B), ("zz" * 64, B)]
    elif cmd == "from-entropy-hex":
        d["secret"] = [("7f" * 16, G), ("80" * 20, G), ("ff" * 24, G), ("00" * 28, G), ("a5" * 32, G), ("7f" * 15, B), ("7f" * 17, B),
                       ("7f" * 33, B), ("zz" * 16, B), ("7f " * 10 + "7f", B)]
        d["password"] = [(None, G), (UNI, G)]
    return d


def build_argv(cmd, vec):
    place = vec.get("placement")
    if place == "password-first" and cmd is not None and vec.get("password") is not None:
        # the sub-command's own option written among the global options (before the sub-command)
        rest = build_argv(cmd, dict(vec, placement=None, password=None))
        return ["--password", vec["password"]] + rest
    if place == "globals-last" and cmd is not None:
        # the global options written after the sub-command and its arguments
        plain = build_argv(cmd, dict(vec, placement=None))
        cut = plain.index(cmd)
        return plain[cut:] + plain[:cut]
    a = []
    if vec["file"] is not None:
        a += ["-f", vec["file"]]
    if vec["testnet"]:
        a.append("--testnet")
    if vec["paranoia"]:
        a.append("--paranoia")
    if vec["account"] is not None:
        a += ["--account=" + vec["account"]]
    if vec["interval"] is not None:
        a += ["--interval"] + list(vec["interval"])
    if cmd is None:
        return a
    a.append(cmd)
    if cmd == "new":
        if vec.get("len") is not None:
            a += ["--mnemonic-len", vec["len"]]
    else:
        a.append(vec["secret"])
    if vec.get("password") is not None:
        a += ["--password", vec["password"]]
    return a


def ref_paranoia(data):
    out = {}
    for name in ("BIP44", "BIP49", "BIP84"):
        out[name] = {"account_extended_keys": {"path": data[name]["account_extended_keys"]["path"],
                                               "pub": data[name]["account_extended_keys"]["pub"]},
                     "groups": [row[:3] for row in data[name]["groups"]]}
    return out


ROW_PATH = re.compile(r"^m/(44|49|84)'/(0|1)'/\d+'/0/\d+$")


def scripted_urandom(n):
    return bytes((i * 73 + 41) % 256 for i in range(n))


class ApiDiffers(Exception):
    pass


def expected_data(cmd, vec, observed):
    """the library API's answer for the same inputs. -> ("ok", data) | ("exc", text)"""
    from btc_hd_wallet.paper_wallet import PaperWallet
    t = bool(vec["testnet"])
    pw = vec.get("password") or ""
    acct = int(vec["account"]) if vec["account"] is not None else 0
    iv = tuple(int(x) for x in vec["interval"]) if vec["interval"] is not None else (0, 20)

    def go():
        if cmd == "new":
            if vec["paranoia"]:
                nbytes = {None: 32, "12": 16, "15": 20, "18": 24, "21": 28, "24": 32}[vec.get("len")]
                mn = hd.mnemonic_from_entropy(scripted_urandom(nbytes))
            else:
                mn = observed["MASTER"]["mnemonic"]
                want = {None: 24}.get(vec.get("len"), int(vec.get("len") or 24))
                if len(mn.split(" ")) != want or not hd.mnemonic_decode(mn)[1]:
                    raise ValueError("new wallet mnemonic has wrong length / checksum: %r" % mn)
            w = PaperWallet.from_mnemonic(mn, password=pw, testnet=t)
        elif cmd == "from-master-xprv":
            w = PaperWallet.from_extended_key(vec["secret"])
        elif cmd == "from-mnemonic":
            w = PaperWallet.from_mnemonic(vec["secret"], password=pw, testnet=t)
        elif cmd == "from-bip39-seed":
            w = PaperWallet.from_bip39_seed_hex(vec["secret"], testnet=t)
        else:
            w = PaperWallet.from_entropy_hex(vec["secret"], password=pw, testnet=t)
        data = w.generate(account=acct, interval=iv)
        # "the API result" does not depend on whether the wallet object was duplicated on the way (copy / pickle round trip)
        from .. import hdscen
        for how, w2 in hdscen.clones(w)[1:2]:          # copy.deepcopy (C06 runs all three ways)
            if json.loads(json.dumps(w2.generate(account=acct, interval=iv))) != json.loads(json.dumps(data)):
                raise ApiDiffers("a %s of the wallet generates a different result than the wallet itself" % how)
        return data
    st, out = attempt(go)
    if st != "ok" and str(out).startswith("ApiDiffers"):
        return "differs", out
    return st, out


def _strings(x):
    if isinstance(x, dict):
        for v in x.values():
            yield from _strings(v)
    elif isinstance(x, (list, tuple)):
        for v in x:
            yield from _strings(v)
    elif isinstance(x, str):
        yield x


def _missing(a, b, pre=""):
    """paths at which the expected value b is absent from / different in the observed value a (extra keys of a are free)"""
    if isinstance(b, dict):
        if not isinstance(a, dict):
            return [pre or "/"]
        out = []
        for k in b:
            out += _missing(a[k], b[k], "%s/%s" % (pre, k)) if k in a else ["%s/%s" % (pre, k)]
        return out
    if isinstance(b, list):
        if not isinstance(a, list) or len(a) != len(b):
            return [pre or "/"]
        out = []
        for i, (x, y) in enumerate(zip(a, b)):
            out += _missing(x, y, "%s[%d]" % (pre, i))
        return out
    return [] if a == b else [pre or "/"]


def judge(cmd, vec, labels, res):
    """-> (outcome, viols)"""
    argv = build_argv(cmd, vec)
    viols = []
    worst = B if B in labels.values() else E if E in labels.values() else G
    if worst == G and cmd == "from-master-xprv" and isinstance(vec.get("secret"), str):
        # --testnet together with a key whose prefix names the other network is contradictory input: it may be refused, or served
        # (then like the API, i.e. by the key's own prefix)
        key_testnet = vec["secret"][:1] in "tuv"
        if bool(vec["testnet"]) != key_testnet:
            worst = E
    badwhy = ",".join(k for k, v in labels.items() if v == B)
    pre_ok = all(res["after"].get(k) == v for k, v in res["before"].items())
    if not pre_ok:
        viols.append(V(P + ":main:pre-existing-path:modified", "argv %r modified or removed a pre-existing path: %r" % (
            argv, {k: (v, res["after"].get(k)) for k, v in res["before"].items() if res["after"].get(k) != v})))
    if res["status"] != 0:
        toks = cli.wallet_tokens(res["stdout"])
        if toks:
            viols.append(V(P + ":main:refused:wallet-data-on-stdout", "argv %r exited %d but stdout carries %r" % (argv, res["status"], toks[:3])))
        if res["after"] != res["before"]:
            viols.append(V(P + ":main:refused:file-created", "argv %r exited %d but the directory changed: %r" % (
                argv, res["status"], sorted(set(res["after"].items()) ^ set(res["before"].items()))[:4])))
        if worst == G and cmd is not None:
            viols.append(V(P + ":main:good-vector:refused", "argv %r (all values clearly valid) was refused: %s" % (argv, res["stderr"][-200:])))
        return ("violation" if viols else "refused:" + (badwhy or ("no-command" if cmd is None else "either"))), viols
    # status 0: served
    target = vec["file"]
    if target is not None:
        body = None
        for rel, text in res["files"].items():
            body = text
        if len(res["files"]) != 1:
            viols.append(V(P + ":main:served:file-set", "argv %r exit 0 with -f but changed files = %r" % (argv, list(res["files"]))))
            return "violation", viols
        if cli.wallet_tokens(res["stdout"]):
            # a status line ("saved to ...") is nobody's business; wallet DATA on stdout next to the file is
            viols.append(V(P + ":main:served:stdout-and-file", "argv %r wrote wallet data (%r) to stdout although -f was given" % (argv, cli.wallet_tokens(res["stdout"])[:2])))
        text = body
    else:
        if res["after"] != res["before"]:
            viols.append(V(P + ":main:served:unrequested-file", "argv %r created files without -f" % (argv,)))
        text = res["stdout"]
    try:
        data = json.loads(text)
    except ValueError:
        viols.append(V(P + ":main:served:not-json", "argv %r exit 0 but output is not JSON: %r" % (argv, text[:80])))
        return "violation", viols
    if worst == B:
        hard = [row[0] for n in ("BIP44", "BIP49", "BIP84") for row in data.get(n, {}).get("groups", []) if not ROW_PATH.match(row[0])]
        cls = "interval>=2^31:hardened-row" if hard and "interval" in badwhy else "bad-%s:served" % badwhy
        viols.append(V("%s:main:%s" % (P, cls), "argv %r contains an invalid value (%s) but was served%s" % (
            argv, badwhy, (" with rows such as %r" % hard[:2]) if hard else "")))
        return "violation", viols
    st, exp = expected_data(cmd, vec, data)
    if st == "differs":
        viols.append(V(P + ":api:duplicated-wallet:differs", "argv %r: %s" % (argv, exp)))
        return "violation", viols
    if st != "ok":
        viols.append(V(P + ":main:served:api-refuses", "argv %r served although the API raises %s" % (argv, exp)))
        return "violation", viols
    full = json.loads(json.dumps(exp))
    if vec["paranoia"]:
        exp = ref_paranoia(exp)
    exp = json.loads(json.dumps(exp, indent=4))
    # every field of the API result must be in the output with the same value; ADDITIONAL fields are not judged, except that a
    # paranoia run must not carry any string of the unfiltered result that the filter removes
    diff = _missing(data, exp)
    if diff:
        viols.append(V(P + ":main:served:differs-from-api", "argv %r: JSON differs from the library API result in %r" % (argv, sorted({d.split("/")[1] for d in diff if "/" in d} or diff)[:5])))
    if vec["paranoia"]:
        from .c15 import private_encoding
        removed = {x for x in list(_strings(full.get("MASTER", {}).get("mnemonic"))) + list(_strings(full.get("MASTER", {}).get("password"))) +
                   list(_strings(full.get("BIP85", {}))) if len(x) >= 8}
        removed |= {x for x in _strings(full) if private_encoding(x)}
        leaked = [x for x in _strings(data) if x in removed or private_encoding(x)]
        if leaked:
            viols.append(V(P + ":main:served:paranoia-carries-filtered-string", "argv %r: the --paranoia output carries %r, which the filter removes from the API result" % (argv, leaked[0][:40])))
    # how the JSON is laid out (indentation, key order) is not part of the property: only the data is compared
    for n in ("BIP44", "BIP49", "BIP84"):
        for row in data[n]["groups"]:
            if not ROW_PATH.match(row[0]):
                viols.append(V(P + ":main:interval>=2^31:hardened-row" if "'" in row[0].split("/")[-1] else P + ":main:served:row-shape",
                               "argv %r: row path %r is not BIP44-shaped" % (argv, row[0])))
                break
    return ("violation" if viols else "served:" + ("file" if target else "stdout") + (":paranoia" if vec["paranoia"] else "")), viols


HIST_VECS = [("from-master-xprv", {}), ("from-master-xprv", {"file": "out.json"}), ("from-mnemonic", {"file": "out.json"}),
             ("from-master-xprv", {"account": "x", "file": "new2.json"}), ("from-master-xprv", {"paranoia": True}),
             ("from-mnemonic", {"file": "other.json", "testnet": True})]


def run_history(hist):
    """several invocations of main() in ONE process and ONE directory; each is judged like a single run, with the file-target
    label taken from the state the directory is in at that moment (an existing target must be refused and left alone)"""
    import tempfile, shutil, os
    d = tempfile.mkdtemp(prefix="vfclih.")
    cli.prepare(d)
    viols, oc = [], "init"
    try:
        for n, h in enumerate(hist):
            cmd, over = HIST_VECS[h]
            dims = dims_for(cmd)
            vec = {m: dims[m][0][0] for m in dims}
            labels = {m: dims[m][0][1] for m in dims}
            for k_, v_ in over.items():
                vec[k_] = v_
                labels[k_] = next((lab for val, lab in dims[k_] if val == v_), G)
            if vec["file"] is not None and os.path.lexists(os.path.join(d, vec["file"])):
                labels["file"] = B
            vec = {k_: (list(v_) if isinstance(v_, tuple) else v_) for k_, v_ in vec.items()}
            res = cli.run_inprocess(build_argv(cmd, vec), workdir=d)
            o, vs = judge(cmd, vec, labels, res)
            if n == len(hist) - 1:
                oc = o
                for v in vs:
                    v["key"] += ":history"
                    v["msg"] = "after %d earlier invocation(s) %r in the same process and directory: %s" % (n, hist[:-1], v["msg"])
                viols = vs
    finally:
        shutil.rmtree(d, ignore_errors=True)
    return {"canon": hist, "viols": viols, "label": oc}


class CliHistories:
    def ops(self, hist):
        return list(range(len(HIST_VECS)))

    def run(self, hist):
        return run_history(hist)


def execute(case):
    if "hist" in case:
        from ..core import isolated
        r = isolated(run_history, case["hist"])
        for v in r["viols"]:
            v["case"] = case
        return R(r["label"], viols=r["viols"])
    cmd, vec, labels = case["cmd"], case["vec"], case["labels"]
    argv = build_argv(cmd, vec)
    ur = scripted_urandom if (cmd == "new" and vec["paranoia"]) else None
    res = cli.run_inprocess(argv, urandom=ur)
    oc, viols = judge(cmd, vec, labels, res)
    if case.get("subprocess") and not (cmd == "new"):
        sub = cli.run_subprocess(argv)
        same = (sub["status"] == res["status"] and sub["stdout"] == res["stdout"] and sub["files"] == res["files"]
                and sub["after"] == res["after"])
        if not same:
            raise HarnessError("in-process CLI seam disagrees with the real subprocess for argv %r: status %r/%r, stdout equal=%r, files equal=%r" % (
                argv, res["status"], sub["status"], sub["stdout"] == res["stdout"], sub["files"] == res["files"]))
        oc += "+subprocess-agrees"
    return R(oc, viols=viols, extra=1 if case.get("subprocess") else None)


def replay(case):
    return execute(case)["v"]


def ball(cmd, bound):
    dims = dims_for(cmd) if cmd else DIM_GLOBAL
    names = list(dims)
    default = {n: dims[n][0] for n in names}
    out = []
    for r in range(0, bound + 1):
        for subset in itertools.combinations(names, r):
            for combo in itertools.product(*[dims[n][1:] for n in subset]):
                vec = {n: default[n][0] for n in names}
                labels = {n: default[n][1] for n in names}
                for n, (val, lab) in zip(subset, combo):
                    vec[n], labels[n] = val, lab
                vec = {k: (list(v) if isinstance(v, tuple) else v) for k, v in vec.items()}
                out.append({"cmd": cmd, "vec": vec, "labels": labels, "dev": r})
    return out


def run(ctx):
    bound = 2 if ctx.thorough else 1
    cases = []
    for cmd in ("from-entropy-hex", "from-mnemonic", "from-bip39-seed", "from-master-xprv", "new"):
        cases += ball(cmd, bound)
    cases += ball(None, 1)
    # flag COMBINATIONS the one-deviation ball does not reach: --paranoia with every interval and every account value (incl. the
    # empty interval), with and without -f, for two sub-commands
    seen0 = {json.dumps([c["cmd"], c["vec"]], sort_keys=True) for c in cases}
    for cmd in ("from-master-xprv", "from-mnemonic"):
        dims = dims_for(cmd)
        names = list(dims)
        for n in ("interval", "account"):
            for val, lab in dims[n][1:]:
                for fval, flab in ((None, G), ("out.json", G)):
                    vec = {m: dims[m][0][0] for m in names}
                    labels = {m: dims[m][0][1] for m in names}
                    vec[n], labels[n] = val, lab
                    vec["paranoia"] = True
                    vec["file"], labels["file"] = fval, flab
                    vec = {k: (list(v) if isinstance(v, tuple) else v) for k, v in vec.items()}
                    key = json.dumps([cmd, vec], sort_keys=True)
                    if key not in seen0:
                        seen0.add(key)
                        cases.append({"cmd": cmd, "vec": vec, "labels": labels, "dev": 3 if fval else 2})
    # ALL combinations of the independent switches (testnet, paranoia, passphrase, file target, non-default account, non-default
    # interval) for every sub-command: interactions of options that are each fine alone
    import itertools as _it
    for cmd in ("from-entropy-hex", "from-mnemonic", "from-bip39-seed", "from-master-xprv"):
        dims = dims_for(cmd)
        names = list(dims)
        switches = [n for n in ("testnet", "paranoia", "password", "file", "account", "interval") if n in dims]
        for r_ in range(2, len(switches) + 1):
            for subset in _it.combinations(switches, r_):
                if not ctx.thorough and r_ > 3 and not {"testnet", "password"} <= set(subset):
                    continue
                vec = {m: dims[m][0][0] for m in names}
                labels = {m: dims[m][0][1] for m in names}
                for n in subset:
                    pick = 2 if n in ("account", "interval") else 1
                    vec[n], labels[n] = dims[n][pick]
                vec = {k: (list(v) if isinstance(v, tuple) else v) for k, v in vec.items()}
                key = json.dumps([cmd, vec], sort_keys=True)
                if key not in seen0:
                    seen0.add(key)
                    cases.append({"cmd": cmd, "vec": vec, "labels": labels, "dev": r_})
    # options written on the WRONG SIDE of the sub-command (argparse may refuse them - or accept them, but then with their value)
    for cmd in ("from-mnemonic", "from-entropy-hex", "from-master-xprv"):
        dims = dims_for(cmd)
        names = list(dims)
        for place in ("password-first", "globals-last"):
            for extra_ in ({}, {"testnet": True}, {"paranoia": True}, {"account": "5"}):
                if place == "password-first" and "password" not in dims:
                    continue
                vec = {m: dims[m][0][0] for m in names}
                labels = {m: dims[m][0][1] for m in names}
                vec.update(extra_)
                if "password" in dims:
                    vec["password"] = dims["password"][1][0]
                if place == "globals-last" and not extra_:
                    vec["file"] = "out.json"
                vec["placement"], labels["placement"] = place, E
                vec = {k: (list(v) if isinstance(v, tuple) else v) for k, v in vec.items()}
                key = json.dumps([cmd, vec], sort_keys=True)
                if key not in seen0:
                    seen0.add(key)
                    cases.append({"cmd": cmd, "vec": vec, "labels": labels, "dev": 2})
    # computed-intermediate corner (vf/corners.py): accounts whose extended PRIVATE key text contains a field name of the schema
    from .. import corners
    kept, st = corners.cover(((a, _acct_text_feats(a)) for a in range((ctx.seed * 5000) % (2**31 - 10**7), 2**31 - 1)), {}, 200000, positions=False, firstlast=False, pairs=False,
                             extra=[corners.contains_words(["x44", "x49", "x84"], ["pub", "prv"])])
    ctx.extra["intermediate_corner_classes_schema_words"] = st
    if st["covered"] != st["classes"]:
        raise HarnessError("corner cover incomplete: %r" % (st,))
    dims = dims_for("from-master-xprv")
    for a, _ in kept:
        for par in (True, False):
            vec = {m: dims[m][0][0] for m in dims}
            labels = {m: dims[m][0][1] for m in dims}
            vec["account"], vec["paranoia"] = str(a), par
            vec = {k: (list(v) if isinstance(v, tuple) else v) for k, v in vec.items()}
            cases.append({"cmd": "from-master-xprv", "vec": vec, "labels": labels, "dev": 2})
    # every not-clearly-good secret / account / interval value combined with a NEW -f target (a refused run must leave no file)
    seen = {json.dumps([c["cmd"], c["vec"]], sort_keys=True) for c in cases}
    for cmd in ("from-entropy-hex", "from-mnemonic", "from-bip39-seed", "from-master-xprv", "new"):
        dims = dims_for(cmd)
        names = list(dims)
        for n in names:
            if n == "file":
                continue
            for val, lab in dims[n][1:]:
                if lab == G:
                    continue
                for fval in ("out.json", "dangling.json"):
                    vec = {m: dims[m][0][0] for m in names}
                    labels = {m: dims[m][0][1] for m in names}
                    vec[n], labels[n] = val, lab
                    vec["file"], labels["file"] = fval, (G if fval == "out.json" else E)
                    vec = {k: (list(v) if isinstance(v, tuple) else v) for k, v in vec.items()}
                    key = json.dumps([cmd, vec], sort_keys=True)
                    if key not in seen:
                        seen.add(key)
                        cases.append({"cmd": cmd, "vec": vec, "labels": labels, "dev": 2})
    # subprocess cross-check subset: every 17th (quick) / 29th (thorough) vector plus all deviation-0 vectors
    step = 29 if ctx.thorough else 17
    nsub = 0
    for i, c in enumerate(cases):
        if c["cmd"] not in (None, "new") and (c["dev"] == 0 or i % step == 0):
            c["subprocess"] = True
            nsub += 1
    agg = ctx.product("argv-deviation-ball", cases, execute, chunk=2)
    from ..bfs import bfs, long_histories
    bfs(ctx, "invocation-histories", CliHistories(), 3 if ctx.thorough else 2, chunk=2)
    long_histories(ctx, "invocation-histories+long", CliHistories(), rotations=3, rounds=2)
    hist = ctx.layers["argv-deviation-ball"]["outcomes"]
    served = sum(v for k, v in hist.items() if k.startswith("served"))
    refused = sum(v for k, v in hist.items() if k.startswith("refused"))
    if served < 10 or refused < 10:
        raise HarnessError("vacuous CLI exploration: served=%d refused=%d" % (served, refused))
    return {"runs": len(cases), "served": served, "refused": refused, "subprocess_crosschecked": len(agg["x"]),
            "deviation_bound": bound}
