"""C10 - Base58Check is lossless and never accepts a string with a wrong checksum."""
from ..core import attempt, V, R, HarnessError
from ..ref import enc

LEVEL = "exploration"
RULE = ("complete enumeration: all byte strings of length 1..2 (thorough ..3), all (length<=128, leading-zero count, "
        "tail pattern) triples, all Base58 strings of length 1..3 (thorough ..4), all payloads of length 0..2 with "
        "reference checksum, and for shaped payloads every single substitution/insertion/deletion/'1'-prefix mutant; "
        "a case is non-trivial when the implementation's answer was compared with the reference codec; cases are "
        "distinct by construction (different input strings)"
        "; intermediate-corner classes (vf/corners.py) for checksum bytes and Base58 digits (zero digit / zero pair at every inner position) of 34- and 52-character strings; every CONSUMER of Base58Check strings (wallet constructors, node parsers, BIP85, WIF import, address helper) x edited / transposed / wrong-checksum variants of valid strings")
A = enc.B58
LAST = ["codec"]
LOOKALIKE = "0OIl"
P = "C10"


def _impl():
    from btc_hd_wallet import helper
    return helper


def chk_bytes(data):
    h = _impl()
    out = []
    st, s = attempt(h.encode_base58, data)
    if st != "ok":
        return [V(P + ":encode_base58:raised", "encode_base58 raised %s for %s" % (s, data.hex()))]
    exp = enc.b58encode(data)
    if s != exp:
        out.append(V(P + ":encode_base58:wrong-string", "encode_base58(%s)" % data.hex(), s, exp))
    z = len(data) - len(data.lstrip(b"\x00"))
    ones = len(s) - len(s.lstrip("1"))
    if z != ones and not (z == len(data) and ones == z):
        out.append(V(P + ":encode_base58:leading-zeros", "%d zero bytes -> %d '1'" % (z, ones), s, exp))
    st, d = attempt(h.decode_base58, s)
    if st != "ok" or d != data:
        out.append(V(P + ":decode_base58:roundtrip", "decode(encode(%s))" % data.hex(),
                     d.hex() if st == "ok" else d, data.hex()))
    return out


def chk_str(s):
    """decode vs reference, encode∘decode = id, checksummed decoder soundness, for s over the alphabet"""
    h = _impl()
    out = []
    ref = enc.b58decode(s)
    st, d = attempt(h.decode_base58, s)
    if st != "ok" or d != ref:
        out.append(V(P + ":decode_base58:wrong-bytes", "decode_base58(%r)" % s, d.hex() if st == "ok" else d, ref.hex()))
    else:
        st2, e = attempt(h.encode_base58, d)
        if st2 != "ok" or e != s:
            out.append(V(P + ":encode_base58:not-inverse-of-decode", "encode(decode(%r))" % s, e, s))
    out += chk_checksummed(s)
    return out


def chk_checksummed(s):
    """the checksummed decoder returns payload p iff the reference accepts with p; s arbitrary text"""
    h = _impl()
    try:
        exp = ("ok", enc.b58check_decode(s))
    except ValueError:
        exp = ("exc", None)
    st, p = attempt(h.decode_base58_checksum, s)
    LAST[0] = "checksum-" + ("accepted" if st == "ok" else "refused")
    if exp[0] == "exc":
        if st == "ok":
            cls = "nonalphabet" if any(c not in A for c in s) else "bad-checksum"
            return [V("%s:decode_base58_checksum:%s:accepted" % (P, cls),
                      "decode_base58_checksum(%r) returned a payload" % s, p.hex() if isinstance(p, bytes) else repr(p),
                      "an exception")]
        return []
    if st != "ok":
        return [V(P + ":decode_base58_checksum:valid:refused", "valid string %r refused: %s" % (s, p), p, exp[1].hex())]
    if p != exp[1]:
        return [V(P + ":decode_base58_checksum:valid:wrong-payload", "payload of %r" % s, p.hex(), exp[1].hex())]
    st, q = attempt(h.b58decode_addr, s)
    if st != "ok" and len(exp[1]) != 21:
        return []          # not an address payload (version byte + 20-byte hash): the address helper may refuse it
    if st != "ok" or q != exp[1][1:]:
        return [V(P + ":b58decode_addr:valid:wrong-payload", "b58decode_addr(%r)" % s, q.hex() if st == "ok" else q,
                  exp[1][1:].hex())]
    return []


FOREIGN = "0OIl -_+/=\u00e9"


def consumers(kind):
    """every public entry point that takes a Base58Check string of this kind"""
    from btc_hd_wallet.base_wallet import BaseWallet
    from btc_hd_wallet.paper_wallet import PaperWallet
    from btc_hd_wallet.bip32 import PrvKeyNode, PubKeyNode
    from btc_hd_wallet.bip85 import BIP85DeterministicEntropy
    from btc_hd_wallet.keys import PrivateKey
    h = _impl()
    if kind == "xprv":
        return {"BaseWallet.from_extended_key": BaseWallet.from_extended_key, "PaperWallet.from_extended_key": PaperWallet.from_extended_key,
                "PrvKeyNode.parse": PrvKeyNode.parse, "BIP85.from_xprv": BIP85DeterministicEntropy.from_xprv,
                "decode_base58_checksum": h.decode_base58_checksum}
    if kind == "xpub":
        return {"BaseWallet.from_extended_key": BaseWallet.from_extended_key, "PaperWallet.from_extended_key": PaperWallet.from_extended_key,
                "PubKeyNode.parse": PubKeyNode.parse, "decode_base58_checksum": h.decode_base58_checksum}
    if kind == "wif":
        return {"PrivateKey.from_wif": PrivateKey.from_wif, "decode_base58_checksum": h.decode_base58_checksum}
    return {"b58decode_addr": h.b58decode_addr, "decode_base58_checksum": h.decode_base58_checksum}


def chk_consumer(kind, good, bad):
    """`good` carries a valid checksum, `bad` does not (classified by the reference): every consumer takes good, refuses bad"""
    try:
        enc.b58check_decode(bad)
        return "skipped-mutant-valid", []
    except ValueError:
        pass
    enc.b58check_decode(good)
    viols = []
    for name, f in consumers(kind).items():
        st, v = attempt(f, good)
        if st != "ok":
            viols.append(V("%s:%s:valid-%s:refused" % (P, name, kind), "%s refused the valid string %r: %s" % (name, good, v)))
            continue
        st, v = attempt(f, bad)
        if st == "ok":
            viols.append(V("%s:%s:bad-checksum:accepted" % (P, name), "%s(%r) accepted a %s whose checksum is wrong (valid neighbour: %r)" % (
                name, bad, kind, good), repr(v)[:80], "an exception"))
    return "consumers-refuse", viols


def crafted(c, d, pos, plen):
    """search payloads of length plen until the reference encoding has the wanted digit at pos, then plant c there"""
    ctr = 0
    while True:
        payload = b"\x00" + enc.sha256(b"crafted" + ctr.to_bytes(8, "big"))[:plen - 1]
        raw = payload + enc.hash256(payload)[:4]
        if d == "skip":
            s = enc.b58encode(raw)
            return s[:pos] + c + s[pos:]
        if d >= 0:
            s = enc.b58encode(raw)
            if pos < len(s) and s[pos] == A[d] and pos >= len(s) - len(s.lstrip("1")):
                return s[:pos] + c + s[pos + 1:]
        else:
            # digit -1 at weight j: number + 58^j must have digit 0 ('1') there
            zeros = len(raw) - len(raw.lstrip(b"\x00"))
            t = int.from_bytes(raw, "big")
            body = enc.b58encode(raw)[zeros:]
            j = len(body) - 1 - (pos - zeros)
            if 0 <= j < len(body) - 1:
                u = enc.b58encode((t + 58 ** j).to_bytes(len(raw) - zeros, "big"))
                if len(u) == len(body) and u[len(u) - 1 - j] == "1":
                    return "1" * zeros + u[:len(u) - 1 - j] + c + u[len(u) - j:]
        ctr += 1


def mutants_at(s, pos):
    out = []
    if pos < len(s):
        for c in A + LOOKALIKE:
            if c != s[pos]:
                out.append(s[:pos] + c + s[pos + 1:])
        out.append(s[:pos] + s[pos + 1:])
    for c in A + LOOKALIKE:
        out.append(s[:pos] + c + s[pos:])
    return out


def _strings(prefix, n):
    if n == 0:
        yield prefix
        return
    for c in A:
        yield from _strings(prefix + c, n - 1)


def _ev_judge(i):
    d = bytes([i % 3]) * (i % 4) + (i * 2654435761 % 2**40).to_bytes(5, "big")
    return chk_bytes(d) + chk_checksummed(enc.b58check_encode(d)) + chk_checksummed(enc.b58encode(d + b"\x00\x01\x02\x03"))


def execute(case):
    k = case.get("k")
    if "hist" in case:
        from ..core import isolated
        from ..bfs import PureCalls
        r = isolated(PureCalls(10**6, _ev_judge, P).run, case["hist"])
        for v in r["viols"]:
            v["case"] = case
        return R(r["label"], viols=r["viols"])
    viols, n, outcomes = [], 0, {}

    def acc(vs, single):
        nonlocal n
        n += 1
        for v in vs:
            v["case"] = single
            viols.append(v)
        o = "violation" if vs else "agree:" + LAST[0]
        LAST[0] = "codec"
        outcomes[o] = outcomes.get(o, 0) + 1

    if k == "bytes":
        acc(chk_bytes(bytes.fromhex(case["hex"])), case)
    elif k == "bytes_block":
        pre = bytes.fromhex(case["prefix"])
        rest = case["len"] - len(pre)
        for i in range(256 ** rest):
            d = pre + i.to_bytes(rest, "big") if rest else pre
            acc(chk_bytes(d), {"k": "bytes", "hex": d.hex()})
    elif k == "lz":
        L, z, pat = case["L"], case["z"], case["pat"]
        tail = {"ff": b"\xff" * (L - z), "01": b"\x01" * (L - z),
                "mix": bytes(((i * 37 + case.get("salt", 0)) % 255) + 1 for i in range(L - z))}[pat]
        d = b"\x00" * z + tail
        acc(chk_bytes(d), {"k": "bytes", "hex": d.hex()})
    elif k == "str":
        acc(chk_str(case["s"]), case)
    elif k == "str_block":
        for s in _strings(case["prefix"], case["len"] - len(case["prefix"])):
            acc(chk_str(s), {"k": "str", "s": s})
    elif k == "chk":
        for rep in range(case.get("repeat", 1)):
            acc(chk_checksummed(case["s"]), case)
    elif k == "valid_block":
        pre = bytes.fromhex(case["prefix"])
        rest = case["len"] - len(pre)
        for i in range(256 ** rest):
            d = pre + (i.to_bytes(rest, "big") if rest else b"")
            s = enc.b58check_encode(d)
            vs = chk_checksummed(s)
            st, e = attempt(_impl().encode_base58_checksum, d)
            if st != "ok" or e != s:
                vs.append(V(P + ":encode_base58_checksum:wrong-string", "payload " + d.hex(), e, s))
            acc(vs, {"k": "chk", "s": s})
    elif k == "valid":
        d = bytes.fromhex(case["payload"])
        s = enc.b58check_encode(d)
        vs = chk_checksummed(s) + chk_bytes(d + enc.hash256(d)[:4])
        st, e = attempt(_impl().encode_base58_checksum, d)
        if st != "ok" or e != s:
            vs.append(V(P + ":encode_base58_checksum:wrong-string", "payload " + d.hex(), e, s))
        acc(vs, case)
    elif k == "consumer":
        o, vs = chk_consumer(case["kind"], case["good"], case["bad"])
        LAST[0] = o
        acc(vs, case)
    elif k == "mut_block":
        s = enc.b58check_encode(bytes.fromhex(case["payload"]))
        for m in mutants_at(s, case["pos"]):
            acc(chk_checksummed(m), {"k": "chk", "s": m})
    elif k == "mapped":
        # a string that WOULD carry a valid checksum if the foreign character c were silently read as digit d
        # (d = -1: str.find() result; "skip": character ignored). Presented three times in one process, so a
        # decoder that only rejects the first sighting of a character is caught too. Must be refused every time.
        s = crafted(case["c"], case["d"], case["pos"], case["len"])
        for rep in range(3):
            acc(chk_checksummed(s), {"k": "chk", "s": s, "repeat": 3})
    elif k == "prefix1":
        s = enc.b58check_encode(bytes.fromhex(case["payload"]))
        for j in (1, 2, 3):
            acc(chk_checksummed("1" * j + s), {"k": "chk", "s": "1" * j + s})
        acc(chk_checksummed(s), {"k": "chk", "s": s})
    else:
        raise ValueError(k)
    return R(outcomes, viols=viols, n=n)


def replay(case):
    return execute(case)["v"]


def shaped_payloads(ctx):
    r = ctx.rng("payloads")
    rb = lambda n: bytes(r.randrange(256) for _ in range(n))
    pl = [b"\x00" + rb(20), b"\x05" + rb(20), b"\x6f" + b"\x00" * 3 + rb(17), b"\x80" + rb(32) + b"\x01",
          b"\xef" + rb(32), b"\x00\x00\x00\x00" + rb(4), b"\x00", b"", b"\xff" * 5,
          bytes.fromhex("0488b21e") + b"\x00" * 9 + rb(32) + b"\x02" + rb(32)]
    if ctx.thorough:
        pl += [bytes.fromhex("04358394") + rb(9) + rb(32) + b"\x00" + rb(32), b"\xc4" + rb(20), b"\x00" * 21]
    return pl


def run(ctx):
    # 1. all byte strings of length 1..2 (..3)
    cases = [{"k": "bytes_block", "prefix": "", "len": 1}]
    cases += [{"k": "bytes_block", "prefix": "%02x" % b, "len": 2} for b in range(256)]
    if ctx.thorough:
        cases += [{"k": "bytes_block", "prefix": "%02x%02x" % (a, b), "len": 3} for a in range(256) for b in range(256)]
    ctx.product("all-bytes", cases, execute, chunk=4 if not ctx.thorough else 64)
    # 2. every (L, z) with three tails
    cases = [{"k": "lz", "L": L, "z": z, "pat": p, "salt": ctx.seed % 200}
             for L in range(1, 129) for z in range(0, L + 1) for p in ("ff", "01", "mix") if not (z == L and p != "ff")]
    ctx.product("length-x-leading-zeros", cases, execute)
    # 3. all alphabet strings of length 1..3 (..4)
    cases = [{"k": "str_block", "prefix": "", "len": 1}]
    cases += [{"k": "str_block", "prefix": c, "len": 2} for c in A]
    cases += [{"k": "str_block", "prefix": a + b, "len": 3} for a in A for b in A]
    if ctx.thorough:
        cases += [{"k": "str_block", "prefix": a + b, "len": 4} for a in A for b in A]
    ctx.product("all-strings", cases, execute, chunk=8)
    # 4. all payloads of length 0..2 under a correct checksum
    cases = [{"k": "valid_block", "prefix": "", "len": 0}, {"k": "valid_block", "prefix": "", "len": 1}]
    cases += [{"k": "valid_block", "prefix": "%02x" % b, "len": 2} for b in range(256)]
    ctx.product("valid-payloads", cases, execute, chunk=4)
    # 5. complete single-edit neighbourhoods of shaped payloads
    cases = []
    for pl in shaped_payloads(ctx):
        s = enc.b58check_encode(pl)
        cases.append({"k": "prefix1", "payload": pl.hex()})
        cases += [{"k": "mut_block", "payload": pl.hex(), "pos": i} for i in range(len(s) + 1)]
    ctx.product("single-edit-mutants", cases, execute, chunk=8)
    # 6. hypothetical "foreign character read as digit d" decoders: every foreign char x every digit -1..57 and "skip"
    cases = [{"k": "mapped", "c": c, "d": d, "pos": pos, "len": 21}
             for c in FOREIGN for d in ([-1, "skip"] + list(range(58))) for pos in (5, 20)]
    ctx.product("foreign-char-read-as-digit", cases, execute, chunk=16)
    # inner runs of the zero digit '1' / of zero bytes at every length and alignment (radix conversion by digit groups)
    cases = []
    heads, tails = ["2", "z", "Zr", "5Q9"], ["", "2", "z", "8y", "zzz", "a1b", "Jx3k"]
    for hd_ in heads:
        for tl in tails:
            for k in range(1, 14):
                cases.append({"k": "str", "s": hd_ + "1" * k + tl})
    for hb in (b"\x01", b"\xff", b"\x3a\x7c"):
        for tb in (b"", b"\x01", b"\xff", b"\x10\x00\x01", b"\xab\xcd\xef\x01\x02"):
            for k in range(1, 14):
                cases.append({"k": "bytes", "hex": (hb + b"\x00" * k + tb).hex()})
    ctx.product("inner-zero-runs", cases, execute)
    from ..bfs import eviction_probe, PureCalls
    eviction_probe(ctx, "codec-revisits", PureCalls(10**6, _ev_judge, P), lambda i: i)
    # corner classes of the computed intermediates (vf/corners.py): checksum bytes (every position 00/ff, every first/last
    # value) and the Base58 digits of the encoded string (digit 0 at every inner position) for 21- and 34-byte payloads
    from .. import corners
    for ver, plen, slen in ((b"\x05", 20, 34), (b"\x80", 33, 52)):
        def cands():
            i = 0
            while True:
                d = ver + (enc.sha256(b"C10-corner-%d-%d" % (ctx.seed, i)) + enc.sha256(b"x%d" % i))[:plen]
                ck = enc.hash256(d)[:4]
                sd = enc.b58encode(d + ck)
                i += 1
                if len(sd) != slen:
                    continue
                yield d, {"ck": ck, "dg": bytes(A.index(c) for c in sd)}
        imp = [("f", "dg", j) for j in range(slen)] + [("z", "dg", 0)] + [(w, "dg", c) for w in ("first", "last") for c in range(256)]
        imp = [t for t in imp if not (t[0] == "last" and t[2] < 58)]
        # plus: two consecutive zero digits ("11") starting at every inner position (radix conversion by digit groups)
        kept, st = corners.cover(cands(), {"ck": 4, "dg": slen}, 400000, pairs=False, impossible=imp, extra=[corners.zero_runs("dg", slen, 2, 2)])
        ctx.extra["intermediate_corner_classes_%d" % slen] = st
        if st["covered"] != st["classes"]:
            raise HarnessError("corner cover incomplete: %r" % (st,))
        ctx.product("intermediate-corners-%d" % slen, [{"k": "valid", "payload": d.hex()} for d, _ in kept], execute, chunk=16)
    # every consumer of Base58Check strings (wallet constructors, node parsers, BIP85, WIF import, address helper): a string
    # one edit away from a valid one, or with zeroed / off-by-one checksum bytes, must be refused by each of them
    from ..ref import hd, secp
    rr = ctx.rng("consumers")
    node = hd.Node(rr.randrange(1, secp.N), None, bytes(rr.randrange(256) for _ in range(32)), 0, 0, b"\x00" * 4)
    node = hd.node_from_priv(node.k, node.chain, 0, 0, b"\x00" * 4)
    pv = sorted(v for v in hd.SLIP132 if hd.SLIP132[v][1] == "prv")
    uv = sorted(v for v in hd.SLIP132 if hd.SLIP132[v][1] == "pub")
    goods = [("xprv", hd.xprv(node, v)) for v in (pv if ctx.thorough else pv[::2])] + [("xpub", hd.xpub(node, v)) for v in (uv if ctx.thorough else uv[1::2])]
    goods += [("wif", hd.wif(node.k, c, t)) for c in (True, False) for t in (False, True)]
    goods += [("addr", enc.b58check_encode(bytes([ver]) + enc.hash160(b"C10-%d" % ver))) for ver in (0x00, 0x05, 0x6f, 0xc4)]
    cases = []
    for kind, g in goods:
        raw = enc.b58decode(g)
        bads = [enc.b58encode(raw[:-4] + b"\x00" * 4), enc.b58encode(raw[:-1] + bytes([(raw[-1] + 1) % 256])),
                enc.b58encode(raw[:-4] + bytes([raw[-4] ^ 0x80]) + raw[-3:]), enc.b58encode(raw[:-4] + enc.sha256(raw[:-4])[:4])]
        for pos in sorted({len(g) - 1, len(g) - 2, len(g) // 2, 5, 1}):
            for d in (1, 29):
                bads.append(g[:pos] + A[(A.index(g[pos]) + d) % 58] + g[pos + 1:])
        for pos in (len(g) - 2, len(g) // 2):
            if g[pos] != g[pos + 1]:
                bads.append(g[:pos] + g[pos + 1] + g[pos] + g[pos + 2:])
        bads += [g[:-1], g + "1", g[:len(g) // 2] + g[len(g) // 2 + 1:]]
        # the count of leading '1' digits is part of the value: one more, two more, one fewer
        bads += ["1" + g, "11" + g] + ([g[1:]] if g.startswith("1") else [])
        cases += [{"k": "consumer", "kind": kind, "good": g, "bad": b} for b in bads if b != g]
    ctx.product("consumers-x-bad-checksums", cases, execute, chunk=4)
    # strings shorter than a checksum / empty / only look-alikes
    cases = [{"k": "chk", "s": s} for s in ["", "1", "11", "111", "1111", "11111", "0", "O", "I", "l", " ", "3yQ", "3yQ "]]
    ctx.product("short-and-foreign", cases, execute, parallel=False)
    return {}
