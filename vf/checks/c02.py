"""C02 - public-only derivation agrees with private derivation on every normal path; hardened from public is refused."""
from ..core import attempt, V, R, HarnessError
from ..ref import hd, secp
from .. import answers, hdscen
from ..bfs import bfs

LEVEL = "model_checking"
P = "C02"
N = hd.N
H = hd.H
RULE = ("explicit-state BFS over PAIRS (private node, public node) grown from the same root material: transitions = ckd(i) with i from "
        "the non-hardened alphabet applied to both real nodes; in every state the public node's key, chain code, depth, child number, "
        "fingerprint and xpub string must equal the private node's public projection AND the reference CKDpub (own curve arithmetic); "
        "roots = scalar x chain-code boundary alphabet, each also parsed from an xpub/xprv string at depth 3/254; PRF-corner layer: "
        "left half in {1, 2, k_par (forces point doubling), n-1, n-k-1, n-k+1, 2^255} on every root x 3 indexes; refusal grid: every "
        "public root x hardened indexes through ckd / derive_path (one hardened member at each position) / generate_children (ranges "
        "touching 2^31): must raise and never add a key. non-trivial = pair compared with the reference / refusal observed"
        "; intermediate-corner classes (vf/corners.py) for IL, IR, parent x/y, child x/y, fingerprint: every byte position 00/ff, every first/last byte value, one public+private pair step each")


def pub_root(root):
    return dict(root, pub=True)


class Pairs:
    """canon = reference public node reached (two histories merge only if every field is equal)."""

    def __init__(self, root, alphabet):
        self.root, self.alphabet = root, alphabet

    def ops(self, hist):
        return self.alphabet

    def run(self, hist):
        prv = hdscen.impl_root(self.root)
        pub = hdscen.impl_root(pub_root(self.root))
        refp = hdscen.ref_root(pub_root(self.root))
        viols = []
        st = ("ok", None)
        for i in hist:
            st = attempt(lambda: (prv.ckd(i), pub.ckd(i)))
            if st[0] != "ok":
                break
            prv, pub = st[1]
        if hist and st[0] != "ok":
            viols.append(V(P + ":ckd:normal-path:refused", "deriving %r below %r raised %s" % (hist, self.root, st[1])))
            return {"canon": ["failed", hist], "viols": viols, "label": "violation"}
        refp = hd.derive(refp, hist)
        t = self.root.get("testnet", False)
        exp = hdscen.canon_ref_node(refp)
        got = hdscen.canon_impl_node(pub)
        proj = ["pub", prv.public_key.sec().hex(), bytes(prv.chain_code).hex(), prv.depth, prv.index, bytes(prv.parent_fingerprint).hex()]
        if got != proj:
            names = ("type", "key", "chain", "depth", "index", "fingerprint")
            bad = "+".join(n for n, a, b in zip(names, got, proj) if a != b)
            viols.append(V("%s:PubKeyNode.ckd:vs-private:%s-differs" % (P, bad), "public vs private derivation at %s below %r" % (hd.path_str(hist, "M"), self.root), got, proj))
        elif got != exp:
            viols.append(V(P + ":PubKeyNode.ckd:vs-reference:differs", "public node at %s" % hd.path_str(hist, "M"), got, exp))
        else:
            rx = hd.xpub(refp, 0x043587CF if t else 0x0488B21E)
            st2, xs = attempt(lambda: (pub.extended_public_key(), prv.extended_public_key()))
            if st2 != "ok" or xs[0] != rx or xs[1] != rx:
                viols.append(V(P + ":extended_public_key:normal-path:differs", "xpub strings at %s" % hd.path_str(hist, "M"), xs, rx))
            if hist:
                st3, dn = attempt(lambda: hdscen.impl_root(pub_root(self.root)).derive_path(list(hist)))
                if st3 != "ok" or hdscen.canon_impl_node(dn) != exp:
                    viols.append(V(P + ":derive_path(pub):vs-stepwise:differs", "public derive_path(%r)" % (hist,)))
        return {"canon": exp if not viols else ["bad", hist], "viols": viols, "label": "violation" if viols else "pair-agrees"}


XROOTS = [{"k": 0x1111, "chain": "aa" * 32}, {"k": 0x1111, "chain": "bb" * 32}, {"k": 0x2222, "chain": "aa" * 32},
          {"k": 0x1111, "chain": "aa" * 32, "testnet": True}, {"k": 0x1111, "chain": "aa" * 32, "depth": 2, "index": 5, "pfp": "01020304"}]


class CrossRootHistories:
    """public single-step derivations on DIFFERENT nodes that share a public key or a chain code, in one process; each
    answer must be the reference child of its own parent. canon = the history (module-level caches are unobservable)."""

    def ops(self, hist):
        return [[r, i] for r in range(len(XROOTS)) for i in (0, 1)]

    def run(self, hist):
        out = None
        for r, i in hist:
            out = (r, i, hdscen.impl({"op": "ckd", "root": pub_root(XROOTS[r]), "i": i}),
                   hdscen.impl({"op": "ckd", "root": XROOTS[r], "i": i}))
        if not hist:
            return {"canon": hist, "viols": [], "label": "init"}
        r, i, a, b = out
        e = hdscen.ref({"op": "ckd", "root": pub_root(XROOTS[r]), "i": i})
        eb = hdscen.ref({"op": "ckd", "root": XROOTS[r], "i": i})
        viols = []
        if a != e:
            viols.append(V(P + ":PubKeyNode.ckd:history:wrong-node", "after %r in the same process, public ckd(%d) on root #%d" % (hist[:-1], i, r), a[1], e[1]))
        if b != eb:
            viols.append(V(P + ":PrvKeyNode.ckd:history:wrong-node", "after %r in the same process, private ckd(%d) on root #%d" % (hist[:-1], i, r), b[1], eb[1]))
        return {"canon": hist, "viols": viols, "label": "violation" if viols else "child-ok"}


SN_OPS = [["ckd", 0], ["ckd", 1], ["ckd", 5], ["children", 0, 2], ["children", 1, 3], ["path", 0, 1],
          # requests that must be REFUSED on the public node (a hardened component), next to their well-formed neighbours: a refusal
          # must not leave anything behind that a later request picks up
          ["path", 0, 5], ["path", H + 1, 5], ["path", H + 1, 6], ["path", 0, 6],
          # children out of order, then in bulk
          ["ckd", 3], ["ckd", 2], ["children", 0, 4]]


class SameNodeHistories:
    """repeated requests on ONE public node object (and its private twin): each answer must be the reference child,
    whatever was derived from the same node before. canon = the history."""

    def ops(self, hist):
        return SN_OPS

    def run(self, hist):
        root = XROOTS[4]
        pub = hdscen.impl_root(pub_root(root))
        prv = hdscen.impl_root(root)
        refp = hdscen.ref_root(pub_root(root))
        viols, label = [], "init"
        for n, op in enumerate(hist):
            if op[0] == "ckd":
                def f(node):
                    ch = node.ckd(op[1])
                    return [hdscen.canon_impl_node(ch), ch.extended_public_key(), bytes(ch.fingerprint()).hex()]
                rc = hd.derive(refp, [op[1]])
                exp = [hdscen.canon_ref_node(rc), hd.xpub(rc), hd.fingerprint(rc.K).hex()]
            elif op[0] == "children":
                f = lambda node: [hdscen.canon_impl_node(c) for c in node.generate_children((op[1], op[2]))]
                exp = [hdscen.canon_ref_node(hd.derive(refp, [i])) for i in range(op[1], op[2])]
            else:
                f = lambda node: [hdscen.canon_impl_node(node.derive_path(list(op[1:])))]
                exp = [hdscen.canon_ref_node(hd.derive(refp, list(op[1:])))] if all(i < H for i in op[1:]) else None
            a = attempt(f, pub)
            b = attempt(f, prv)
            if n == len(hist) - 1 and op[0] == "path" and any(i >= H for i in op[1:]):
                # hardened from public: refused, always (the private twin is not judged here)
                if a[0] == "ok":
                    viols.append(V(P + ":same-node-history:hardened-from-public:derived", "after %r on the same public node, derive_path(%r) returned %r instead of raising" % (
                        hist[:-1], op[1:], str(a[1])[:100])))
                label = "violation" if viols else "refused-hardened"
            elif n == len(hist) - 1:
                if a[0] != "ok" or a[1] != exp:
                    viols.append(V(P + ":same-node-history:public:wrong-node", "after %r on the same public node, %r gives %r" % (hist[:-1], op, str(a[1])[:120]), None, exp))
                if b[0] != "ok" or [x[2:] for x in b[1] if isinstance(x, list)] != [x[2:] for x in exp if isinstance(x, list)] or \
                        [x for x in b[1] if isinstance(x, str)] != [x for x in exp if isinstance(x, str)]:
                    viols.append(V(P + ":same-node-history:private:wrong-node", "after %r on the same private node, %r differs from the reference" % (hist[:-1], op)))
                label = "violation" if viols else "child-ok"
        return {"canon": hist, "viols": viols, "label": label}


def chk_corner(root, i, il_spec):
    rr = hdscen.ref_priv_shadow(root)
    data = secp.sec(rr.K) + i.to_bytes(4, "big")
    kind, val = il_spec
    il = {"il": lambda: val, "kpar": lambda: rr.k, "child": lambda: (val - rr.k) % N}[kind]()
    if il == 0 or il >= N or (il + rr.k) % N == 0:
        return "corner-not-applicable", False, []
    prf = answers.PRF({(bytes.fromhex(root["chain"]), data): ("L", il)})
    with answers.installed(prf):
        a = hdscen.impl({"op": "ckd", "root": pub_root(root), "i": i})
        b = hdscen.impl({"op": "ckd", "root": dict(root, pub=False), "i": i})
        e = hdscen.ref({"op": "ckd", "root": pub_root(root), "i": i})
        hits = prf.hits
    label = "%s%s" % (kind, "" if kind == "kpar" else "=%x" % val)
    if e[0] != "ok":
        raise HarnessError("reference refused valid corner %r" % (il_spec,))
    if a[0] != "ok" or b[0] != "ok":
        return "violation", True, [V("%s:ckd:prf-corner:%s:refused" % (P, "doubling" if kind == "kpar" else "generic"),
                                     "IL %s on %r index %d: public %r private %r" % (label, root, i, a[1] if a[0] != "ok" else "ok", b[1] if b[0] != "ok" else "ok"))]
    if hits < 3:
        return "violation", True, [V(P + ":ckd:prf-corner:prf-message-differs", "chosen answer consumed %d times (expected by public, private and reference)" % hits)]
    if a[1] != e[1]:
        return "violation", True, [V("%s:PubKeyNode.ckd:prf-corner:%s:wrong-node" % (P, "doubling" if kind == "kpar" else "generic"),
                                     "IL %s on %r index %d" % (label, root, i), a[1], e[1])]
    kb = int(b[1][1], 16)
    if secp.sec(secp.pub(kb)).hex() != a[1][1] or a[1][2:] != b[1][2:]:
        return "violation", True, [V(P + ":PubKeyNode.ckd:prf-corner:vs-private-differs", "IL %s on %r index %d" % (label, root, i), a[1], b[1])]
    return "corner-agrees:" + kind, True, []


def chk_clone(root, i):
    """duplicated nodes (copy.copy / copy.deepcopy / pickle round trip) on the public and on the private side: the duplicate of
    a derived node shows the same fields and key string and derives the same children; the duplicate of a parent derives the
    same child"""
    viols, n = [], 0
    t = root.get("testnet", False)
    for side, r in (("public", pub_root(root)), ("private", root)):
        refp = hdscen.ref_root(pub_root(root))
        rc = hd.derive(refp, [i])
        rg = hd.derive(rc, [1])
        xp = lambda nd: hd.xpub(nd, 0x043587CF if t else 0x0488B21E)
        def view(node):
            return [node.public_key.sec().hex(), bytes(node.chain_code).hex(), node.depth, node.index, bytes(node.parent_fingerprint).hex(), node.extended_public_key()]
        def ref_view(nd):
            return [secp.sec(nd.K).hex(), nd.chain.hex(), nd.depth, nd.index, nd.pfp.hex(), xp(nd)]
        st, child = attempt(lambda: hdscen.impl_root(r).ckd(i))
        if st != "ok":
            continue
        for how, c in hdscen.clones(child):
            n += 1
            st, got = attempt(lambda: [view(c), view(c.ckd(1))])
            if st != "ok" or got != [ref_view(rc), ref_view(rg)]:
                viols.append(V("%s:clone:%s:%s:differs" % (P, side, how), "%s of the %s child %d of %r (and its child 1)" % (how, side, i, root),
                               str(got)[:200], str([ref_view(rc), ref_view(rg)])[:200]))
        for how, c in hdscen.clones(hdscen.impl_root(r)):
            n += 1
            st, got = attempt(lambda: view(c.ckd(i)))
            if st != "ok" or got != ref_view(rc):
                viols.append(V("%s:clone:%s-parent:%s:differs" % (P, side, how), "child %d derived from a %s of the %s parent %r" % (i, how, side, root),
                               str(got)[:200], str(ref_view(rc))[:200]))
    return ("violation" if viols else "clones-agree"), True, viols


def chk_refusal(root, form, arg):
    r = pub_root(root)
    node = hdscen.impl_root(r)
    before = len(hdscen.kids(node))
    if form == "ckd":
        st, out = attempt(node.ckd, arg)
    elif form == "derive_path":
        st, out = attempt(node.derive_path, list(arg))
    else:
        st, out = attempt(node.generate_children, tuple(arg))
    in_range = form != "ckd" or (H <= arg < 2**32)
    if st == "ok":
        if not in_range:
            return "observed-out-of-range-accepted", True, []
        return "violation", True, [V("%s:%s:hardened-from-public:derived" % (P, form), "%s(%r) on a public node returned %r" % (form, arg, out))]
    # nothing hardened may have been stored
    stack = [node]
    while stack:
        n = stack.pop()
        if n.index >= H and n is not node:
            return "violation", True, [V("%s:%s:hardened-from-public:stored" % (P, form), "a hardened child %s was stored below a public node" % n)]
        stack.extend(hdscen.kids(n))
    if form == "ckd" and len(hdscen.kids(node)) != before:
        return "violation", True, [V(P + ":ckd:hardened-from-public:children-grew", "children list grew although ckd(%r) raised" % arg)]
    return ("refused-hardened" if in_range else "refused-out-of-range"), True, []


def execute(case):
    k = case.get("k")
    if k == "corner":
        from ..core import isolated
        o, nt, vs = isolated(chk_corner, case["root"], case["i"], tuple(case["il"]))
    elif k == "clone":
        o, nt, vs = chk_clone(case["root"], case["i"])
    elif k == "refuse":
        o, nt, vs = chk_refusal(case["root"], case["form"], case["arg"])
    elif "hist" in case and "model" not in case and k is None:
        from ..core import isolated
        model = SameNodeHistories() if case.get("layer", "").startswith("same-node-histories") else CrossRootHistories()
        r = isolated(model.run, case["hist"])
        o, nt, vs = r["label"], True, r["viols"]
        for v in vs:
            v["case"] = case
    elif k == "pairs":
        r = Pairs(case["root"], case["alphabet"]).run(case["hist"])
        o, nt, vs = r["label"], True, r["viols"]
        for v in vs:
            v["case"] = case
    else:
        raise ValueError(k)
    return R(o, nontrivial=nt, viols=vs)


def replay(case):
    if "hist" in case and "k" not in case and "model" in case:
        case = dict(case["model"], k="pairs", hist=case["hist"])
    return execute(case)["v"]


def run(ctx):
    r = ctx.rng("c02")
    lz = lambda z: int.from_bytes(b"\x00" * z + bytes(r.randrange(1, 256) for _ in range(32 - z)), "big")
    ks = [1, N - 1, lz(16), r.randrange(1, N), 2, 2**255, lz(1), (N - 1) // 2, 3, N - 2, lz(31), r.randrange(1, N), 0xff, 2**128, lz(8), r.randrange(1, N)]
    ccs = ["00" * 32, "ff" * 32, "%064x" % r.getrandbits(256), "00" * 31 + "01", "80" + "00" * 31, "%064x" % r.getrandbits(256)]
    nroots = 16 if ctx.thorough else 6
    roots = []
    for n in range(nroots):
        root = {"k": ks[n % len(ks)], "chain": ccs[n % len(ccs)]}
        if n % 3 == 1:
            root.update(depth=3, index=H + 9, pfp="0a0b0c0d", parsed=True)
        if n % 3 == 2:
            root.update(depth=254 - 4, index=77, pfp="ffffffff", parsed=True, testnet=True)
        roots.append(root)
    alpha = [0, 1, H - 1, r.randrange(2, H - 1)] + ([0x01000000] if ctx.thorough else [])
    depth = 4 if ctx.thorough else 3
    for n, root in enumerate(roots):
        bfs(ctx, "pair-tree-root%d" % n, Pairs(root, alpha), depth, isolate=False)
    for v in ctx.violations:
        c = v.get("case")
        if isinstance(c, dict) and "hist" in c and "k" not in c and c.get("layer", "").startswith("pair-tree-root"):
            c["model"] = {"root": roots[int(c["layer"].replace("pair-tree-root", ""))], "alphabet": alpha}
    for smp in ctx.samples:
        if "history" in smp and smp["layer"].startswith("pair-tree-root"):
            smp["model"] = {"root": roots[int(smp["layer"].replace("pair-tree-root", ""))], "alphabet": alpha}
    bfs(ctx, "cross-root-histories", CrossRootHistories(), 3 if ctx.thorough else 2)
    bfs(ctx, "same-node-histories", SameNodeHistories(), 3 if ctx.thorough else 2)
    from ..bfs import long_histories
    long_histories(ctx, "same-node-histories+long", SameNodeHistories(), rotations=6 if ctx.thorough else 3, rounds=3)
    from ..bfs import eviction_probe
    eviction_probe(ctx, "same-node-histories+revisits", SameNodeHistories(), lambda i: ["ckd", i], sizes=(1, 2, 3, 4, 5, 8, 9, 16, 17, 20, 21, 32, 33))
    long_histories(ctx, "cross-root-histories+long", CrossRootHistories(), rotations=5 if ctx.thorough else 3, rounds=2)
    # corner classes of the computed intermediates (vf/corners.py): IL, IR, parent x / y, CHILD x / y, parent fingerprint -
    # every byte position 00 / ff and every first / last byte value; one public+private pair step each
    from .. import corners as cm
    from ..ref import enc
    base = int.from_bytes(enc.sha256(b"C02-corner-base-%d" % ctx.seed), "big") % (N - 10**6) + 1

    def cands():
        for n_, (k, pt) in enumerate(cm.scalar_walk(base, secp)):
            chain = enc.sha256(b"C02-chain-%d" % n_)
            i = int.from_bytes(enc.sha256(b"C02-idx-%d" % n_)[:4], "big") % H
            sec_ = secp.sec(pt)
            I_ = enc.hmac_sha512(chain, sec_ + i.to_bytes(4, "big"))
            il = int.from_bytes(I_[:32], "big")
            if il >= N or (il + k) % N == 0:
                continue
            cpt = secp.pub((il + k) % N)
            yield ({"k": k, "chain": chain.hex()}, i), {"IL": I_[:32], "IR": I_[32:], "x": sec_[1:], "y": pt[1].to_bytes(32, "big"),
                                                        "cx": cpt[0].to_bytes(32, "big"), "cy": cpt[1].to_bytes(32, "big"), "fp": enc.hash160(sec_)[:4]}
    kept, st = cm.cover(cands(), {"IL": 32, "IR": 32, "x": 32, "y": 32, "cx": 32, "cy": 32, "fp": 4}, 60000, pairs=ctx.thorough)
    ctx.extra["intermediate_corner_classes"] = st
    if st["covered"] != st["classes"]:
        raise HarnessError("corner cover incomplete: %r" % (st,))
    ctx.product("intermediate-corners", [{"k": "pairs", "root": c[0], "alphabet": [c[1]], "hist": [c[1]]} for c, _ in kept], execute, chunk=8)
    corners = [("il", 1), ("il", 2), ("kpar", 0), ("il", N - 1), ("child", N - 1), ("child", 1), ("il", 2**255), ("child", 2), ("il", N - 2)]
    cases = [{"k": "corner", "root": root, "i": i, "il": list(c)} for root in roots for i in (0, H - 1, alpha[3]) for c in corners]
    ctx.product("prf-corners", cases, execute)
    ctx.product("duplicated-nodes", [{"k": "clone", "root": root, "i": i} for root in roots for i in (0, H - 1)], execute)
    cases = []
    hard = [H, H + 1, H + r.randrange(2, H - 1), 2**32 - 1, 2**32, 2**40]
    for root in roots:
        for i in hard:
            cases.append({"k": "refuse", "root": root, "form": "ckd", "arg": i})
        for pos in range(3):
            lst = [0, 1, 2]
            lst[pos] = H + pos
            cases.append({"k": "refuse", "root": root, "form": "derive_path", "arg": lst})
        for pos in range(8):                      # ... and at every position of an eight-level path
            lst = [0, 1, 2, 3, 4, 5, 6, 7]
            lst[pos] = H + 5
            cases.append({"k": "refuse", "root": root, "form": "derive_path", "arg": lst})
        for iv in ([H, H + 2], [H - 1, H + 1], [2**32 - 2, 2**32]):
            cases.append({"k": "refuse", "root": root, "form": "generate_children", "arg": iv})
    ctx.product("hardened-from-public-refusal", cases, execute)
    return {"roots": len(roots), "pair_alphabet": alpha, "depth_bound": depth, "prf_corners": [list(c) for c in corners]}
