"""C18 - invalid children are reported, never returned (PRF answers enumerated at every call of real histories)."""
from ..core import V, R, HarnessError, project, isolated
from ..ref import hd, secp
from .. import answers, hdscen

LEVEL = "fault_enumeration"
P = "C18"
N = hd.N
H = hd.H
RULE = ("for every scenario (master generation, private/public ckd, derive_path, generate_children, by_path, address "
        "generator, PaperWallet.generate, BIP85 wif/xprv) the distinct (key,msg) PRF calls of the real history are recorded; "
        "then for EVERY such call and EVERY answer of the alphabet (invalid: IL=n, n+1, 2^256-1, child scalar 0 i.e. "
        "IL=n-k_par; valid neighbours: IL=1, n-1, child=1, child=n-1) the history is re-executed on the implementation and "
        "on the reference model under one and the same substituted PRF (deviation bound 1; bound 2 = a valid answer first, "
        "calls re-recorded, then every answer at every call of the changed history). Oracle: reference refuses <=> "
        "implementation raises; reference returns => equal result; no invalid node left in any children list. "
        "non-trivial = the injected answer was actually consumed by the implementation (stub hit) or the reference; "
        "distinct = distinct (scenario, overridden call, answer)")

INVALID = [("il", N, "IL=n"), ("il", N + 1, "IL=n+1"), ("il", 2**256 - 1, "IL=2^256-1"), ("child", 0, "child=0")]
VALID = [("il", 1, "IL=1"), ("il", N - 1, "IL=n-1"), ("child", 1, "child=1"), ("child", N - 1, "child=n-1")]
# values that differ from n in exactly one 32-bit limb (a comparison implemented limb by limb must get each right), and
# byte patterns with long runs of ff / 00
LIMB_INVALID = [("il", N + 2**(32 * k), "IL=n+2^%d" % (32 * k)) for k in range(1, 8) if N + 2**(32 * k) < 2**256] + \
               [("il", 2**256 - 2**128, "IL=ff*16|00*16"), ("il", 2**256 - 2**64, "IL=ff*24|00*8"), ("il", 2**256 - 2**192, "IL=ff*8|00*24"),
                ("il", (2**128 - 1) << 128 | 0x1234, "IL=ff*16|low")]
LIMB_VALID = [("il", N - 2**(32 * k), "IL=n-2^%d" % (32 * k)) for k in range(1, 8)] + [("il", 2**255, "IL=2^255"), ("il", (2**127 - 1) << 128, "IL=7f ff*15|00*16")]
MASTER_ANS = [("il", 0, "IL=0"), ("il", N, "IL=n"), ("il", N + 1, "IL=n+1"), ("il", 2**256 - 1, "IL=2^256-1"),
              ("il", 1, "IL=1"), ("il", N - 1, "IL=n-1")]
B85_VALUES = [(0, "0"), (N, "n"), (N + 1, "n+1"), (2**256 - 1, "2^256-1"), (1, "1"), (N - 1, "n-1")]


def seam_of(sc):
    op = sc["op"]
    pub = sc.get("root", {}).get("pub")
    return {"master": "master_key", "ckd": "PubKeyNode.ckd" if pub else "PrvKeyNode.ckd",
            "derive": "derive_path(pub)" if pub else "derive_path", "children": "generate_children(pub)" if pub else "generate_children",
            "by_path": "by_path", "addrgen": "address_generator(pub)" if pub else "address_generator",
            "paper": "PaperWallet.generate", "paper_seed": "PaperWallet.generate(seed)",
            "bip85_wif": "bip85.wif", "bip85_xprv": "bip85.xprv"}[op]


def execute(case):
    """every injected case runs in its own forked child: a (correct) cache of derivation results filled under another PRF
    substitute earlier in the same process must not be able to answer in place of the substituted function"""
    from ..core import isolated
    return isolated(_execute, case)


def _execute(case):
    sc = case["sc"]
    ov = {(bytes.fromhex(o["key"]), bytes.fromhex(o["msg"])): (o["half"], int(o["val"], 16)) for o in case["inj"]}
    label = "+".join(o["label"] for o in case["inj"]) or "none"
    last = case["inj"][-1]["label"] if case["inj"] else "none"
    prf = answers.PRF(ov)
    keep = {}
    with answers.installed(prf):
        got = hdscen.impl(sc, keep)
        impl_hits = prf.hits
        exp = hdscen.ref(sc)
        total_hits = prf.hits
    seam = seam_of(sc)
    viols = []
    if exp[0] == "exc":
        oc = "refused-as-required" if got[0] == "exc" else "violation"
        last = "IL>=n" if ">= n" in exp[1] else "child=0" if ("zero" in exp[1] or "infinity" in exp[1]) else "invalid-key"
        if got[0] == "ok":
            viols.append(V("%s:%s:%s:returned" % (P, seam, last),
                           "%s with PRF answer %s: BIP32 declares the child invalid (%s) but a result was returned: %s" % (
                               seam, label, exp[1], str(got[1])[:160]), str(got[1])[:300], "an exception"))
    else:
        last = "valid"
        if got[0] == "exc":
            oc = "violation"
            viols.append(V("%s:%s:%s:valid-refused" % (P, seam, last),
                           "%s with valid PRF answer %s raised %s" % (seam, label, got[1]), got[1], str(exp[1])[:200]))
        elif project(got[1], exp[1]) != project(exp[1], exp[1]):
            oc = "violation"
            viols.append(V("%s:%s:%s:wrong-result" % (P, seam, last),
                           "%s with valid PRF answer %s differs from the reference" % (seam, label), str(got[1])[:300], str(exp[1])[:300]))
        else:
            oc = "valid-neighbour-agrees"
    if keep.get("root") is not None:
        bad = hdscen.stored_invalid(keep["root"])
        if bad:
            viols.append(V("%s:%s:%s:invalid-node-stored" % (P, seam, last), "after %s with answer %s the tree holds %s" % (seam, label, bad)))
            oc = "violation"
    consumed = total_hits > 0
    if case["inj"] and impl_hits == 0 and exp[0] == "exc" and got[0] == "ok":
        # the implementation never asked the substituted function for this (key, msg): the seam did not reach it, so its
        # answer says nothing about the injected value. Not a verdict; run() turns a lost seam into a harness error.
        return R("injection-not-consumed-by-implementation", nontrivial=False, viols=[], extra={"impl_hits": 0})
    return R(oc if consumed else "answer-not-reached", nontrivial=consumed, viols=viols,
             extra={"impl_hits": impl_hits} if case["inj"] else None)


def replay(case):
    return execute(case)["v"]


# --------------------------------------------------------------------------------------- enumeration
def record(sc, base_inj):
    """-> ordered list of ((key,msg), k_par) the reference (private shadow) makes under the base overrides, and the
    implementation's distinct calls (for the seam-effectiveness check)."""
    ov = {(bytes.fromhex(o["key"]), bytes.fromhex(o["msg"])): (o["half"], int(o["val"], 16)) for o in base_inj}
    prf = answers.PRF(ov)
    with answers.installed(prf):
        hdscen.impl(sc)
        impl_calls = prf.distinct_calls()
        _, table = answers.record_ref(lambda: _unwrap(hdscen.ref(sc, shadow=True)))
    return table, impl_calls


def _unwrap(r):
    if r[0] == "exc":
        raise ValueError(r[1])
    return r[1]


def inj_for(call, kpar, ans):
    t, v, label = ans
    r = answers.resolve((t, v), kpar)
    if r is None:
        return None
    if r == ("L", 0) and call[0] != b"Bitcoin seed":
        return None   # IL = 0 for a child is not declared invalid by BIP32 and back-ends differ: outside the property
    return {"key": call[0].hex(), "msg": call[1].hex(), "half": r[0], "val": "%x" % r[1], "label": label}


def alphabet_for(call):
    key, _ = call
    if key == b"Bitcoin seed":
        return MASTER_ANS + [a for a in LIMB_INVALID + LIMB_VALID]
    return INVALID + VALID


def enumerate_cases(sc, depth2, stats):
    from ..core import isolated
    # every recording runs in its OWN pristine child: a process-wide cache filled by an earlier scenario would otherwise answer
    # this one without any HMAC call (the seam would look lost)
    table, impl_calls = isolated(record, sc, [])
    if not impl_calls:
        raise HarnessError("seam lost: scenario %r made no HMAC call through the stub" % sc)
    stats["impl_only_calls"] += len([c for c in impl_calls if c not in table])
    stats["positions"] += len(table)
    cases = [{"sc": sc, "inj": []}]
    for call, kpar in table.items():
        if call[0] == b"bip-entropy-from-k":
            half = "R" if sc["op"] == "bip85_xprv" else "L"
            if sc["op"] in ("bip85_wif", "bip85_xprv"):
                for v, lab in B85_VALUES:
                    cases.append({"sc": sc, "inj": [{"key": call[0].hex(), "msg": call[1].hex(), "half": half, "val": "%x" % v,
                                                      "label": "bip85-key=" + lab}]})
            elif sc["op"] in ("paper", "paper_seed"):
                # the same BIP85 call feeds a mnemonic, a WIF or an XPRV depending on the path: drive both halves
                for hf in ("L", "R"):
                    for v, lab in B85_VALUES:
                        cases.append({"sc": sc, "inj": [{"key": call[0].hex(), "msg": call[1].hex(), "half": hf, "val": "%x" % v,
                                                          "label": "bip85-%s=%s" % (hf, lab)}]})
            continue
        for ans in alphabet_for(call):
            inj = inj_for(call, kpar, ans)
            if inj:
                cases.append({"sc": sc, "inj": [inj]})
    if depth2:
        for call, kpar in table.items():
            if call[0] in (b"bip-entropy-from-k", b"Bitcoin seed"):
                continue
            for first in VALID[:2] + VALID[2:3]:
                a = inj_for(call, kpar, first)
                if not a:
                    continue
                t2, _ = isolated(record, sc, [a])
                for call2, kpar2 in t2.items():
                    if call2 == call or call2[0] in (b"bip-entropy-from-k", b"Bitcoin seed"):
                        continue
                    for ans in INVALID + VALID[:2]:
                        b = inj_for(call2, kpar2, ans)
                        if b:
                            cases.append({"sc": sc, "inj": [a, b]})
    return cases


def roots(ctx):
    r = ctx.rng("roots")
    ks = [1, 2, N - 1, N - 2, (N - 1) // 2, 2**255, r.randrange(1, N), int.from_bytes(b"\x00" * 16 + bytes(r.randrange(256) for _ in range(16)), "big") or 5,
          3, 2**128, r.randrange(1, N), r.randrange(1, N)]
    ccs = ["00" * 32, "ff" * 32, "%064x" % r.getrandbits(256), "00" * 31 + "01", "80" + "00" * 31, "%064x" % r.getrandbits(256)]
    n = 12 if ctx.thorough else 4
    out = []
    for i in range(n):
        out.append({"k": ks[i % len(ks)], "chain": ccs[i % len(ccs)]})
    return out


def run(ctx):
    stats = {"impl_only_calls": 0, "positions": 0}
    rts = roots(ctx)
    rr = ctx.rng("idx")
    scs = []
    seeds = ["000102030405060708090a0b0c0d0e0f", "ff" * 64, "%032x" % rr.getrandbits(128)]
    for s in seeds[:3 if ctx.thorough else 2]:
        scs.append(({"op": "master", "seed": s}, False))
    idxs = [0, 1, H - 1, H, H + 1, 2**32 - 1, rr.randrange(2, H - 1), H + rr.randrange(2, H - 1)]
    for r in rts:
        for i in idxs:
            scs.append(({"op": "ckd", "root": r, "i": i}, False))
            if i < H:
                scs.append(({"op": "ckd", "root": dict(r, pub=True), "i": i}, False))
    # parents PARSED from their serialised form (they may hold their key in another width), private and public, normal and hardened
    for r in rts[:2]:
        pr = dict(r, parsed=True, depth=2, index=H + 3, pfp="0a0b0c0d")
        for i in (0, H, H + 1, 2**32 - 1):
            scs.append(({"op": "ckd", "root": pr, "i": i}, False))
        scs.append(({"op": "ckd", "root": dict(pr, pub=True), "i": 1}, False))
        scs.append(({"op": "derive", "root": pr, "path": [H + 1, H + 2]}, True))
    # limb-boundary answers on two parents, private and public, normal and hardened
    limb = []
    for r in rts[:2]:
        for i in (0, H + 1):
            limb.append({"op": "ckd", "root": r, "i": i})
        limb.append({"op": "ckd", "root": dict(r, pub=True), "i": 1})
    # the same single steps after N earlier derivations in the same process (bounded caches in the derivation helpers)
    for r in rts[:1]:
        for warm in (1, 4, 15, 16, 17, 32, 33):
            scs.append(({"op": "ckd", "root": r, "i": 0, "warm": warm}, False))
            scs.append(({"op": "ckd", "root": dict(r, pub=True), "i": 0, "warm": warm}, False))
    # the same request twice (and three times) on the same parent object: a refusal must not be forgotten
    for r in rts[:2]:
        for i, rep in ((0, 2), (H + 1, 2), (1, 3)):
            scs.append(({"op": "ckd", "root": r, "i": i, "repeat": rep}, False))
        scs.append(({"op": "ckd", "root": dict(r, pub=True), "i": 1, "repeat": 2}, False))
    hist_roots = rts[:4 if ctx.thorough else 2]
    for r in hist_roots:
        d2 = True
        scs.append(({"op": "derive", "root": r, "path": [H + 44, 0, 5]}, d2))
        scs.append(({"op": "derive", "root": dict(r, pub=True), "path": [0, 1, 2]}, d2))
        scs.append(({"op": "children", "root": r, "interval": [0, 3]}, False))
        scs.append(({"op": "children", "root": dict(r, pub=True), "interval": [0, 3]}, False))
        scs.append(({"op": "by_path", "root": r, "path": "m/0/1'/2"}, ctx.thorough))
        scs.append(({"op": "addrgen", "root": r, "base": [0], "sends": [None, 2]}, ctx.thorough))
        scs.append(({"op": "addrgen", "root": dict(r, pub=True), "base": [], "sends": [None, None]}, False))
        scs.append(({"op": "bip85_wif", "root": r, "index": 0}, False))
        scs.append(({"op": "bip85_xprv", "root": r, "index": 1}, False))
    scs.append(({"op": "paper", "root": rts[0], "account": 0, "interval": [0, 1]}, False))
    scs.append(({"op": "paper_seed", "seed": "5eb00bbddcf069084889a8ab9155568165f5c453ccb85e70811aaed6f6da5fc19a5ac40b389cd370d086206dec8aa6c43daea6690f20ad3d8d48b2d2ce9e38e4",
                 "account": 1, "interval": [3, 4], "testnet": True}, False))
    if ctx.thorough:
        scs.append(({"op": "paper", "root": dict(rts[2], testnet=True), "account": 2**31 - 2, "interval": [0, 2]}, False))
    def enumerate_all():
        st = {"impl_only_calls": 0, "positions": 0}
        out = []
        for sc, d2 in scs:
            out += enumerate_cases(sc, d2, st)
        for sc in limb:
            table, _ = isolated(record, sc, [])
            for call, kpar in table.items():
                for ans in LIMB_INVALID + LIMB_VALID:
                    inj = inj_for(call, kpar, ans)
                    if inj:
                        out.append({"sc": sc, "inj": [inj]})
        return out, st
    cases, stats = enumerate_all()             # every recording forks its own child: the parent stays pristine
    agg = ctx.product("prf-answers", cases, execute, chunk=8)
    hits = [x["impl_hits"] for x in agg["x"]]
    if hits and sum(1 for h in hits if h) < 0.5 * len(hits):
        raise HarnessError("seam lost: only %d of %d injected answers were consumed by the implementation (HMAC-SHA512 is reached "
                           "through a route the harness does not own)" % (sum(1 for h in hits if h), len(hits)))
    return {"scenarios": len(scs), "prf_call_positions": stats["positions"], "impl_calls_unknown_to_reference": stats["impl_only_calls"],
            "injections": len(cases), "injections_consumed_by_impl": sum(1 for h in hits if h), "deviation_bound": 2,
            "answers": [a[2] for a in INVALID + VALID] + ["master:" + a[2] for a in MASTER_ANS] + ["bip85:" + b[1] for b in B85_VALUES]}
