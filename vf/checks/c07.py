"""C07 - extended keys round-trip through serialisation for all fields and all 12 versions."""
from io import BytesIO

from ..core import attempt, V, R, HarnessError
from ..ref import hd, secp, enc

LEVEL = "exploration"
P = "C07"
N = secp.N
H = hd.H
RULE = ("full product ALL 12 versions x depth{0,1,2,127,254,255} x child number{0,1,2^31-1,2^31,2^32-1,seeded} x fingerprint{00000000,"
        "00000001,ffffffff,seeded} x (chain code, key) pairs from the boundary alphabets (scalars 1, n-1, leading-zero; points of both "
        "parities and leading-zero x), constrained by BIP32 validity (only a depth-0 node with child number 0 must carry a zero fingerprint); every payload in "
        "ALL three input forms (str, bytes, BytesIO); unknown versions: 0, 0xffffffff, every listed version +-1, other coins' "
        "constants. Oracle: string built by the reference serialiser from the fields; parse returns the fields; re-serialisation "
        "reproduces the string; equality with a constructed node; Version table typed in from SLIP-132; public serialisations "
        "contain the reference compressed key and never the scalar. non-trivial = fields and strings compared; distinct by construction"
        "; intermediate-corner classes (vf/corners.py) for checksum, fingerprint, child number, chain code, x, low scalar byte, and the Base58 digits (zero digit / zero pair at every inner position)")

VERSIONS = sorted(hd.SLIP132)
DEPTHS = [0, 1, 2, 127, 254, 255]
FPS = ["00000000", "00000001", "ffffffff"]


def chk_version(v):
    from btc_hd_wallet.wallet_utils import Version, Key, Bip
    viols = []
    name, kind, net, bip = hd.SLIP132[v]
    st, ver = attempt(Version.parse, v)
    if st != "ok":
        return [V(P + ":Version.parse:listed:refused", "Version.parse(%#x) raised %s" % (v, ver))]
    got = (ver.key_type.name.lower(), "test" if ver.testnet else "main", {0: 44, 1: 49, 2: 84}[ver.bip_type.value])
    if got != (kind, net, bip):
        viols.append(V(P + ":Version.parse:listed:wrong-triple", "Version.parse(%#x) [%s]" % (v, name), got, (kind, net, bip)))
    st, back = attempt(lambda: int(Version(key_type=Key[kind.upper()].value, bip={44: 0, 49: 1, 84: 2}[bip], testnet=(net == "test"))))
    if st != "ok" or back != v:
        viols.append(V(P + ":Version.__int__:listed:not-inverse", "int(Version(%s,%s,%d))" % (kind, net, bip), back, v))
    return viols


def chk_payload(v, depth, fp_hex, index, chain_hex, k_hex, sec_hex):
    from btc_hd_wallet.bip32 import PrvKeyNode, PubKeyNode
    from btc_hd_wallet.base_wallet import BaseWallet
    name, kind, net, bip = hd.SLIP132[v]
    testnet = net == "test"
    fp, chain = bytes.fromhex(fp_hex), bytes.fromhex(chain_hex)
    if kind == "prv":
        k = int(k_hex, 16)
        keydata = b"\x00" + k.to_bytes(32, "big")
        pt = secp.pub(k)
        cls = PrvKeyNode
    else:
        pt = secp.parse_sec(bytes.fromhex(sec_hex))
        keydata = secp.sec(pt)
        cls = PubKeyNode
    raw = hd.ser(v, depth, fp, index, chain, keydata)
    s = enc.b58check_encode(raw)
    viols = []
    tag = "%s:d%d" % (name, depth)
    if len(s) != 111:
        return [V(P + ":reference:length", "reference string is %d chars" % len(s))]
    forms = {"str": s, "bytes": raw, "BytesIO": None}
    first = None
    for fname in forms:
        arg = BytesIO(raw) if fname == "BytesIO" else forms[fname]
        st, node = attempt(cls.parse, arg, testnet)
        if st != "ok":
            viols.append(V("%s:parse(%s):%s:refused" % (P, fname, kind), "%s.parse of valid %s (%s) raised %s" % (cls.__name__, name, s, node)))
            continue
        # the key FIELD is compared by value: a private node may hold its scalar with or without the 0x00 pad of the wire format
        nk = bytes(node.key)
        if kind == "prv" and len(nk) == 32:
            nk = b"\x00" + nk
        got = (node.parsed_version, node.depth, bytes(node.parent_fingerprint), node.index, bytes(node.chain_code), nk)
        exp = (v, depth, fp, index, chain, keydata)
        if got != exp:
            bad = [n for n, a, b in zip(("version", "depth", "fingerprint", "index", "chain", "key"), got, exp) if a != b]
            viols.append(V("%s:parse(%s):%s:wrong-field:%s" % (P, fname, kind, "+".join(bad)), "parse(%s) of %s" % (fname, s),
                           [x.hex() if isinstance(x, bytes) else x for x in got], [x.hex() if isinstance(x, bytes) else x for x in exp]))
            continue
        if kind == "prv":
            st, again = attempt(node.extended_private_key, node.parsed_version)
        else:
            st, again = attempt(node.extended_public_key, node.parsed_version)
        if st != "ok" or again != s:
            viols.append(V("%s:reserialize:%s:%s:not-identical" % (P, kind, "depth=%d" % depth if depth in (0, 255) else "generic"),
                           "parse(%s) then serialise with the parsed version" % fname, again, s))
        if first is None:
            first = node
        elif not (node == first):
            viols.append(V(P + ":__eq__:forms:unequal", "nodes parsed from different input forms are unequal (%s)" % s))
    if first is None:
        return viols
    # a duplicate (copy.copy / copy.deepcopy / pickle round trip) of a parsed node - and of a node DERIVED from it - serialises
    # to the same string as the original
    from .. import hdscen
    for how, c in hdscen.clones(first):
        f = c.extended_private_key if kind == "prv" else c.extended_public_key
        st, again = attempt(f, getattr(c, "parsed_version", None) or v)
        if st != "ok" or again != s:
            viols.append(V("%s:reserialize:%s:%s:not-identical" % (P, kind, how), "%s of the node parsed from %s serialises differently" % (how, s), again, s))
    if depth < 255 and (kind == "prv" or index >= 0):
        st, ch = attempt(first.ckd, 1)
        if st == "ok":
            st, orig = attempt(ch.extended_public_key)
            for how, c in hdscen.clones(ch):
                st2, again = attempt(c.extended_public_key)
                if st == "ok" and (st2 != "ok" or again != orig):
                    viols.append(V("%s:reserialize:derived-node:%s:not-identical" % (P, how), "%s of child 1 of the node parsed from %s serialises differently from the child itself" % (how, s), again, orig))
    # stream semantics: parsing from a stream starts at its CURRENT position and consumes exactly 78 bytes
    buf = BytesIO(b"\xaa\xbb\xcc" + raw + raw + b"\xdd")
    buf.read(3)
    st, n1 = attempt(cls.parse, buf, testnet)
    pos1 = buf.tell()
    st2, n2 = attempt(cls.parse, buf, testnet)
    if st != "ok" or st2 != "ok" or not (n1 == first) or not (n2 == first) or pos1 != 3 + 78 or buf.tell() != 3 + 156:
        viols.append(V("%s:parse(BytesIO):%s:stream-position" % (P, kind),
                       "two serialised nodes read one after the other from one stream at offset 3: positions %r/%r, results %s/%s" % (
                           pos1, buf.tell(), n1 if st != "ok" else "ok", n2 if st2 != "ok" else "ok")))
    # constructed node equality
    ctor_key = keydata[1:] if kind == "prv" else keydata
    st, built = attempt(lambda: cls(key=ctor_key, chain_code=chain, index=index, depth=depth, testnet=testnet, parent_fingerprint=fp))
    if st != "ok" or not (built == first) or not (first == built):
        viols.append(V(P + ":__eq__:parsed-vs-constructed:unequal", "parsed node != node constructed from the same fields (%s)" % s))
    else:
        other = cls(key=ctor_key, chain_code=chain, index=(index + 1) % 2**32, depth=depth, testnet=testnet, parent_fingerprint=fp)
        if other == first:
            viols.append(V(P + ":__eq__:different-index:equal", "nodes with different child numbers compare equal"))
    # public projection: compressed key only, never the scalar
    pubv = hd.version_for("pub", testnet, bip)
    st, xp = attempt(first.extended_public_key, pubv)
    exp_xp = enc.b58check_encode(hd.ser(pubv, depth, fp, index, chain, secp.sec(pt)))
    if st != "ok" or xp != exp_xp:
        viols.append(V("%s:extended_public_key:%s:wrong-string" % (P, kind), "public serialisation of %s" % s, xp, exp_xp))
    else:
        st, rawpub = attempt(first.serialize_public, pubv)
        if st != "ok" or secp.sec(pt) not in rawpub or (kind == "prv" and keydata[1:] in rawpub):
            viols.append(V(P + ":serialize_public:leak:scalar-or-missing-key", "serialize_public of %s" % s))
    # default versions follow the node's network
    st, dflt = attempt(first.extended_public_key)
    exp_d = enc.b58check_encode(hd.ser(0x043587CF if testnet else 0x0488B21E, depth, fp, index, chain, secp.sec(pt)))
    if st != "ok" or dflt != exp_d:
        viols.append(V(P + ":extended_public_key:default-version:wrong", "default-version xpub for testnet=%r" % testnet, dflt, exp_d))
    # wallet import
    st, w = attempt(BaseWallet.from_extended_key, s)
    if st != "ok":
        viols.append(V("%s:from_extended_key:%s:refused" % (P, name), "from_extended_key(%s) raised %s" % (s, w)))
    else:
        if w.testnet != testnet or w.watch_only != (kind == "pub") or type(w.master) is not cls or not (w.master == first):
            viols.append(V("%s:from_extended_key:%s:wrong-wallet" % (P, name), "from_extended_key(%s): testnet=%r watch_only=%r type=%s" % (
                s, w.testnet, w.watch_only, type(w.master).__name__), None, "testnet=%r watch_only=%r" % (testnet, kind == "pub")))
    return viols


def chk_unknown(v):
    from btc_hd_wallet.base_wallet import BaseWallet
    from btc_hd_wallet.wallet_utils import Version
    viols = []
    for keydata in (b"\x00" + (7).to_bytes(32, "big"), secp.sec(secp.pub(7))):
        s = enc.b58check_encode(hd.ser(v, 0, b"\x00" * 4, 0, b"\x07" * 32, keydata))
        st, w = attempt(BaseWallet.from_extended_key, s)
        if st == "ok":
            viols.append(V(P + ":from_extended_key:unknown-version:accepted", "wallet built from version %#010x (%s)" % (v, s)))
    st, ver = attempt(Version.parse, v)
    if st == "ok":
        viols.append(V(P + ":Version.parse:unknown-version:accepted", "Version.parse(%#010x) returned %r" % (v, int(ver))))
    return viols


def chk_master(seed_hex, testnet):
    from btc_hd_wallet.bip32 import PrvKeyNode
    m = hd.master(bytes.fromhex(seed_hex))
    st, node = attempt(PrvKeyNode.master_key, bytes.fromhex(seed_hex), testnet)
    if st != "ok":
        return [V(P + ":master_key:seed:refused", "master_key raised %s" % node)]
    viols = []
    for f, ref in ((node.extended_private_key, hd.xprv(m, 0x04358394 if testnet else 0x0488ADE4)),
                   (node.extended_public_key, hd.xpub(m, 0x043587CF if testnet else 0x0488B21E))):
        st, s = attempt(f)
        if st != "ok" or s != ref:
            viols.append(V(P + ":master:serialisation:wrong", "master key serialisation", s, ref))
        else:
            raw = enc.b58check_decode(s)
            if raw[4] != 0 or raw[5:9] != b"\x00" * 4 or raw[9:13] != b"\x00" * 4:
                viols.append(V(P + ":master:serialisation:nonzero-metadata", "master depth/fingerprint/child number not zero: " + raw[4:13].hex()))
    return viols


def _pure_inputs():
    """serialised keys that share all fields but one (version, depth, fingerprint, child number, chain code, key)"""
    base = dict(v=0x0488ADE4, depth=3, fp="01020304", index=7, chain="11" * 32, scalar="%x" % 0xABCDEF, sec=None)
    out = [base]
    for k, val in (("v", 0x04B2430C), ("v", 0x04358394), ("depth", 4), ("fp", "01020305"), ("index", 8), ("index", H + 7), ("chain", "12" * 32),
                   ("scalar", "%x" % 0xABCDF0)):
        out.append(dict(base, **{k: val}))
    pub = dict(base, v=0x0488B21E, scalar=None, sec=secp.sec(secp.pub(0xABCDEF)).hex())
    out += [pub, dict(pub, v=0x04B24746), dict(pub, chain="12" * 32), dict(pub, sec=secp.sec(secp.pub(0xABCDF0)).hex()), dict(pub, depth=4)]
    return out


def _ev_judge(i):
    """many distinct extended-key strings (distinct scalar, child number and version)"""
    v = VERSIONS[i % 12]
    k = 0xA11CE + 13 * i
    if hd.SLIP132[v][1] == "prv":
        return chk_payload(v, 1 + i % 5, "0a0b0c0d", i, "21" * 32, "%x" % k, None)
    return chk_payload(v, 1 + i % 5, "0a0b0c0d", i, "21" * 32, None, secp.sec(secp.pub(k)).hex())


def _pure_judge(i):
    c = _pure_inputs()[i]
    return chk_payload(c["v"], c["depth"], c["fp"], c["index"], c["chain"], c["scalar"], c["sec"])


def execute(case):
    k = case.get("k")
    if "hist" in case:
        from ..core import isolated
        from ..bfs import PureCalls
        r = isolated(PureCalls(10**6, _ev_judge if case.get("layer", "").endswith("revisits") else _pure_judge, P).run, case["hist"])
        for v in r["viols"]:
            v["case"] = case
        return R(r["label"], viols=r["viols"])
    if k == "version":
        vs = chk_version(case["v"])
        return R("violation" if vs else "version-table-ok", viols=vs)
    if k == "unknown":
        vs = chk_unknown(case["v"])
        return R("violation" if vs else "unknown-version-refused", viols=vs)
    if k == "master":
        vs = chk_master(case["seed"], case["testnet"])
        return R("violation" if vs else "master-zero-metadata", viols=vs)
    if k == "payload":
        vs = chk_payload(case["v"], case["depth"], case["fp"], case["index"], case["chain"], case.get("scalar"), case.get("sec"))
        return R("violation" if vs else "roundtrip-ok:" + hd.SLIP132[case["v"]][1], viols=vs)
    if k == "block":
        viols, n = [], 0
        for depth in DEPTHS:
            for fp in case["fps"]:
                for index in case["indexes"]:
                    if depth == 0 and index == 0 and fp != "00000000":
                        continue      # the only excluded shape: a master (depth 0, child number 0) must carry a zero fingerprint
                    single = {"k": "payload", "v": case["v"], "depth": depth, "fp": fp, "index": index, "chain": case["chain"],
                              "scalar": case.get("scalar"), "sec": case.get("sec")}
                    vs = chk_payload(case["v"], depth, fp, index, case["chain"], case.get("scalar"), case.get("sec"))
                    n += 1
                    for v in vs:
                        v["case"] = single
                    viols += vs
        return R("violation" if viols else "roundtrip-ok:" + hd.SLIP132[case["v"]][1], viols=viols, n=n)
    raise ValueError(k)


def replay(case):
    return execute(case)["v"]


def run(ctx):
    r = ctx.rng("c07")
    ctx.product("version-table", [{"k": "version", "v": v} for v in VERSIONS], execute, parallel=False)
    unk = {0, 0xFFFFFFFF, 0x019D9CFE, 0x019DA462, 0x02FACAFD, 0x02FAC398, 0x0488B21E ^ 0x80000000, 0x04000000}
    for v in VERSIONS:
        unk.update({v - 1, v + 1})
    unk -= set(VERSIONS)
    ctx.product("unknown-versions", [{"k": "unknown", "v": v} for v in sorted(unk)], execute)
    ctx.product("seed-built-masters", [{"k": "master", "seed": s, "testnet": t} for s in ("000102030405060708090a0b0c0d0e0f", "ff" * 64,
                "%0128x" % r.getrandbits(512)) for t in (False, True)], execute, parallel=False)
    scalars = [1, N - 1, int.from_bytes(b"\x00" * 16 + bytes(r.randrange(1, 256) for _ in range(16)), "big"), r.randrange(1, N)]
    chains = ["00" * 32, "ff" * 32, "%064x" % r.getrandbits(256), "00" * 31 + "01"]
    pairs = [(scalars[0], chains[0]), (scalars[1], chains[1]), (scalars[2], chains[2]), (scalars[3], chains[3])]
    if ctx.thorough:
        more = [2, 2**255, (N - 1) // 2, r.randrange(1, N), r.randrange(1, N), 0xff, 2**128 - 1, N - 2]
        pairs += [(k, chains[i % 4] if i % 2 else "%064x" % r.getrandbits(256)) for i, k in enumerate(more)]
    # public keys: points of the scalars plus points lifted from leading-zero x, both parities
    pubs = [secp.sec(secp.pub(k)).hex() for k, _ in pairs]
    for zeros in (31, 2):
        while True:
            x = int.from_bytes(b"\x00" * zeros + bytes(r.randrange(1, 256) for _ in range(32 - zeros)), "big")
            y = secp.lift_x(x, False)
            if y is not None:
                break
        pubs += [secp.sec((x, y)).hex(), secp.sec((x, secp.P - y)).hex()]
    idxs = [0, 1, H - 1, H, 2**32 - 1, r.randrange(2, 2**32 - 1)]
    fps = FPS + ["%08x" % r.getrandbits(32)]
    cases = []
    for v in VERSIONS:
        kind = hd.SLIP132[v][1]
        if kind == "prv":
            for k, cc in pairs:
                cases.append({"k": "block", "v": v, "chain": cc, "scalar": "%x" % k, "fps": fps, "indexes": idxs})
        else:
            for i, sec in enumerate(pubs):
                cases.append({"k": "block", "v": v, "chain": chains[i % len(chains)], "sec": sec, "fps": fps, "indexes": idxs})
    ctx.product("payload-product", cases, execute, chunk=1)
    # corner classes of computed intermediates / wide fields (vf/corners.py): checksum, fingerprint, child number, chain code,
    # x coordinate - every byte position 00 / ff, every first / last byte value; versions rotate through all twelve
    from .. import corners
    base = int.from_bytes(enc.sha256(b"C07-corner-base-%d" % ctx.seed), "big") % (N - 10**6) + 1

    def cands():
        for i, (k, pt) in enumerate(corners.scalar_walk(base, secp)):
            v = VERSIONS[i % len(VERSIONS)]
            h = enc.sha256(b"C07-c-%d" % i) + enc.sha256(b"C07-d-%d" % i)
            fp, idx, chain, depth = h[:4], h[4:8], h[8:40], 1 + h[40] % 254
            kd = (b"\x00" + k.to_bytes(32, "big")) if hd.SLIP132[v][1] == "prv" else secp.sec(pt)
            raw = hd.ser(v, depth, fp, int.from_bytes(idx, "big"), chain, kd)
            yield (v, depth, fp.hex(), int.from_bytes(idx, "big"), chain.hex(), "%x" % k, secp.sec(pt).hex()), {
                "ck": enc.hash256(raw)[:4], "fp": fp, "idx": idx, "chain": chain, "x": secp.sec(pt)[1:], "klow": k.to_bytes(32, "big")[-1:]}
    kept, st = corners.cover(cands(), {"ck": 4, "fp": 4, "idx": 4, "chain": 32, "x": 32, "klow": 1}, 60000, pairs=ctx.thorough)
    ctx.extra["intermediate_corner_classes"] = st
    if st["covered"] != st["classes"]:
        raise HarnessError("corner cover incomplete: %r" % (st,))
    ctx.product("intermediate-corners", [{"k": "payload", "v": c[0], "depth": c[1], "fp": c[2], "index": c[3], "chain": c[4], "scalar": c[5], "sec": c[6]}
                                         for c, _ in kept], execute, chunk=8)
    # the Base58 digits of the 111-character string: a zero digit ('1') and a pair of zero digits at every inner position
    # (private-key versions: any scalar is a valid payload, so candidates cost no curve arithmetic)
    A58 = "123456789ABCDEFGHJKLMNPQRSTUVWXYZabcdefghijkmnopqrstuvwxyz"
    prv_versions = [v for v in VERSIONS if hd.SLIP132[v][1] == "prv"]

    def dcands():
        i = 0
        while True:
            v = prv_versions[i % len(prv_versions)]
            h = enc.sha256(b"C07-e-%d-%d" % (ctx.seed, i)) + enc.sha256(b"C07-f-%d" % i) + enc.sha256(b"C07-g-%d" % i)
            i += 1
            k = int.from_bytes(h[40:72], "big") % (N - 1) + 1
            raw = hd.ser(v, 1 + h[72] % 254, h[:4], int.from_bytes(h[4:8], "big"), h[8:40], b"\x00" + k.to_bytes(32, "big"))
            sd = enc.b58check_encode(raw)
            yield (v, 1 + h[72] % 254, h[:4].hex(), int.from_bytes(h[4:8], "big"), h[8:40].hex(), "%x" % k, None), {"dg": bytes(A58.index(c) for c in sd)}
    imp = [("f", "dg", j) for j in range(111)] + [("z", "dg", j) for j in range(5)]
    kept, st = corners.cover(dcands(), {"dg": 111}, 200000, firstlast=False, pairs=False, impossible=imp, extra=[corners.zero_runs("dg", 111, 2, 5)])
    ctx.extra["digit_corner_classes"] = st
    if st["covered"] != st["classes"]:
        raise HarnessError("digit corner cover incomplete: %r" % (st,))
    ctx.product("digit-corners", [{"k": "payload", "v": c[0], "depth": c[1], "fp": c[2], "index": c[3], "chain": c[4], "scalar": c[5], "sec": c[6]}
                                  for c, _ in kept], execute, chunk=8)
    from ..bfs import bfs, long_histories, PureCalls
    model = PureCalls(len(_pure_inputs()), _pure_judge, P)
    bfs(ctx, "parse-serialise-call-histories", model, 3 if ctx.thorough else 2)
    long_histories(ctx, "parse-serialise-call-histories+long", model, rotations=7 if ctx.thorough else 3, rounds=2)
    from ..bfs import eviction_probe
    eviction_probe(ctx, "parse-serialise-revisits", PureCalls(10**6, _ev_judge, P), lambda i: i, sizes=(1, 2, 3, 4, 5, 8, 9, 16, 17, 32, 33, 64, 65))
    return {"versions": 12, "depths": DEPTHS, "indexes": idxs, "fingerprints": fps, "key_chain_pairs": len(pairs), "public_points": len(pubs)}
