"""C01 - BIP32 private child derivation matches the spec for every parent and index."""
from ..core import attempt, V, R, HarnessError
from ..ref import hd, secp
from .. import answers, hdscen
from ..bfs import bfs

LEVEL = "model_checking"
P = "C01"
N = hd.N
H = hd.H
RULE = ("(a) single step: full product parent scalar K x chain code CC x parent depth x index I (both sides of 2^31, byte-order probes, "
        "2^32-1) x PRF mode {real HMAC; chosen left half so that the child scalar is 1, 2, 0xff, 2^128, a 31-leading-zero value, n-1, or "
        "the sum wraps past n (n+1, n+2^200), or IL = 1, n-1}, parent built directly and parsed from its serialisation; (b) explicit-"
        "state BFS of the derivation tree: transitions = ckd(i) on the real nodes walked from one root object, every state compared "
        "(node fields, xprv and xpub strings) with the reference CKDpriv, and derive_path(list) must land on the same state. "
        "non-trivial = child returned and compared byte for byte; distinct = distinct (parent, index, PRF mode) / distinct tree nodes"
        "; (c) intermediate-corner classes (vf/corners.py): for IL, IR, child scalar, parent x, parent fingerprint every byte position 00/ff and every first/last byte value, normal and hardened, each cornered child also used as a parent; (d) every entry point that yields a private child (keyword ckd, derive_path, bulk generation with windows across 2^31, nodes/wallets built from the serialised parent, by_path, repeated and neighbour calls) x index alphabet x three parents")

MODES = [("real", None), ("child", 1), ("child", 2), ("child", 0xff), ("child", 2**128), ("child", 0x42), ("child", N - 1),
         ("sum", N + 1), ("sum", N + 2**200), ("il", 1), ("il", N - 1), ("il", N)]


def node_strings(n):
    return [n.extended_private_key(), n.extended_public_key()]


def ref_strings(n, testnet=False):
    return [hd.xprv(n, 0x04358394 if testnet else 0x0488ADE4), hd.xpub(n, 0x043587CF if testnet else 0x0488B21E)]


def chk_step(root, i, mode):
    sc = {"op": "ckd", "root": root, "i": i}
    ov = {}
    label = mode[0] if mode[1] is None else "%s=%x" % (mode[0], mode[1])
    if mode[0] != "real":
        rr = hdscen.ref_root(root)
        data = (b"\x00" + rr.k.to_bytes(32, "big") if i >= H else secp.sec(rr.K)) + i.to_bytes(4, "big")
        res = answers.resolve((mode[0], mode[1]), rr.k)
        if res is None or res[1] == 0:
            return "mode-not-applicable", False, []
        if res[1] >= N or (res[1] + rr.k) % N == 0:
            if mode != ("il", N):
                return "mode-not-applicable", False, []
        ov[(bytes.fromhex(root["chain"]), data)] = res
    prf = answers.PRF(ov)
    keep = {}
    with answers.installed(prf):
        exp = hdscen.ref(sc)
        got = hdscen.impl(sc, keep)
        if mode[0] != "real" and prf.hits < 2 and got[0] == "ok":
            # the implementation never asked the substituted function for BIP32's (key, data): either it computes the HMAC of a
            # different message - then the REAL-function layer reports a wrong child for the same (parent, index) - or the seam
            # did not reach it. No verdict from this case; run() turns a mostly unconsumed layer into exit 2.
            return "injection-not-consumed", False, []
        if exp[0] != "ok":
            if mode != ("il", N):
                raise HarnessError("reference refused a valid case %r %r: %s" % (root, i, exp[1]))
            if got[0] == "ok":
                return "violation", True, [V(P + ":PrvKeyNode.ckd:IL=n:returned", "ckd(%d) on %r with left half = n returned %r (BIP32: invalid, no child)" % (
                    i, root, got[1]))]
            return "refused-IL=n", True, []
        cls = ("hardened" if i >= H else "normal") + (":parsed-parent" if root.get("parsed") else "") + ":" + ("real-prf" if mode[0] == "real" else "prf-corner")
        if got[0] != "ok":
            return "violation", True, [V("%s:PrvKeyNode.ckd:%s:refused" % (P, cls), "ckd(%d) on %r with PRF %s raised %s" % (i, root, label, got[1]))]
        if got[1] != exp[1]:
            names = ("type", "key", "chain", "depth", "index", "fingerprint")
            bad = "+".join(n for n, a, b in zip(names, got[1], exp[1]) if a != b)
            return "violation", True, [V("%s:PrvKeyNode.ckd:%s:wrong-%s" % (P, cls, bad), "ckd(%d) on %r with PRF %s" % (i, root, label), got[1], exp[1])]
        # strings printed for the child
        child = keep["child"]
        st, strs = attempt(node_strings, child)
        refn = hd.derive(hdscen.ref_root(root), [i])
        if st != "ok" or strs != ref_strings(refn, root.get("testnet", False)):
            return "violation", True, [V("%s:extended_key_strings:%s:wrong" % (P, cls), "xprv/xpub of child %d of %r (PRF %s)" % (i, root, label),
                                         strs, ref_strings(refn, root.get("testnet", False)))]
    return "child-equals-reference:" + ("real" if mode[0] == "real" else "corner"), True, []


class Tree:
    """BFS over the derivation tree below one root. canon = the canonical node reached (distinct paths give distinct keys,
    so no two histories merge except by genuine equality of every field)."""

    def __init__(self, root, alphabet):
        self.root, self.alphabet = root, alphabet

    def ops(self, hist):
        return self.alphabet

    def run(self, hist):
        rootobj = hdscen.impl_root(self.root)
        refn = hdscen.ref_root(self.root)
        node = rootobj
        viols, label = [], "root"
        st = ("ok", None)
        for i in hist:
            if i == "fail":           # a rejected request (index 2^32) on the current node: must leave no trace
                attempt(node.ckd, 2**32)
                continue
            st = attempt(node.ckd, i)
            if st[0] != "ok":
                break
            node = st[1]
        fails = [i for i in hist if i == "fail"]
        hist = [i for i in hist if i != "fail"]
        if fails and not hist:
            return {"canon": ["failed-calls-only", len(fails)], "viols": [], "label": "root"}
        refn = hd.derive(refn, hist)
        t = self.root.get("testnet", False)
        if hist:
            cls = "hardened" if hist[-1] >= H else "normal"
            if st[0] != "ok":
                viols.append(V("%s:tree:%s:refused" % (P, cls), "walking %r from %r raised %s" % (hist, self.root, st[1])))
                return {"canon": ["failed", hist], "viols": viols, "label": "violation"}
            got = hdscen.canon_impl_node(node)
            exp = hdscen.canon_ref_node(refn)
            if got != exp:
                viols.append(V("%s:tree:%s:wrong-node" % (P, cls), "node at %s below %r" % (hd.path_str(hist), self.root), got, exp))
            else:
                sst, strs = attempt(node_strings, node)
                if sst != "ok" or strs != ref_strings(refn, t):
                    viols.append(V("%s:tree:%s:wrong-strings" % (P, cls), "extended keys at %s" % hd.path_str(hist), strs, ref_strings(refn, t)))
                # one-call derivation from a fresh root must land on the same state
                dst, dn = attempt(lambda: hdscen.impl_root(self.root).derive_path(list(hist)))
                if fails:
                    viols_tag = "after-failed-call"
                if dst != "ok" or hdscen.canon_impl_node(dn) != got:
                    viols.append(V(P + ":derive_path:vs-stepwise:differs", "derive_path(%r) != step-by-step ckd" % (hist,)))
                if str(node) != hd.path_str(hist, "m") and self.root.get("depth", 0) == 0:
                    viols.append(V(P + ":str(node):tree:wrong-path", "str(node) at %r" % (hist,), str(node), hd.path_str(hist)))
            label = "violation" if viols else "state-equals-reference"
        for v in viols:
            if fails:
                v["key"] += ":after-failed-call"
                v["msg"] += " (history contains %d rejected ckd(2^32) calls)" % len(fails)
        canon = hdscen.canon_ref_node(refn) + ([len(fails)] if fails else [])
        return {"canon": canon if not viols else ["bad", hist, len(fails)], "viols": viols, "label": label}


def chk_entry(root, i):
    """one (parent, index) through EVERY entry point that derives a private child: all must return the reference child"""
    from btc_hd_wallet.base_wallet import BaseWallet
    refn = hd.derive(hdscen.ref_root(root), [i])
    exp = hdscen.canon_ref_node(refn)
    t = root.get("testnet", False)
    xk = hdscen.root_xkey(root)
    mark = "%d'" % (i - H) if i >= H else "%d" % i
    lo, hi = max(0, i - 2), min(2**32, i + 3)
    ways = {
        "ckd(index=)": lambda: hdscen.impl_root(root).ckd(index=i),
        "derive_path": lambda: hdscen.impl_root(root).derive_path([i]),
        "generate_children(i,i+1)": lambda: hdscen.impl_root(root).generate_children((i, i + 1))[0],
        "generate_children(window)": lambda: hdscen.impl_root(root).generate_children((lo, hi))[i - lo],
        "generate_children(interval=)": lambda: hdscen.impl_root(root).generate_children(interval=(lo, hi))[i - lo],
        "from_extended_key.master.ckd": lambda: BaseWallet.from_extended_key(xk).master.ckd(i),
        "from_extended_key.master.generate_children": lambda: BaseWallet.from_extended_key(xk).master.generate_children((lo, hi))[i - lo],
        "wallet.by_path": lambda: BaseWallet.from_extended_key(xk).by_path("m/" + mark),
        "second-call-same-node": lambda: (lambda n: (n.ckd(i), n.ckd(i))[1])(hdscen.impl_root(root)),
        "after-neighbour": lambda: (lambda n: (n.ckd(i ^ H), n.ckd(i))[1])(hdscen.impl_root(root)),
    }
    for how in ("copy.copy", "copy.deepcopy", "pickle"):
        # a duplicated child prints the same keys; a duplicated parent derives the same child
        ways["%s(child)" % how] = (lambda h: lambda: dict(hdscen.clones(hdscen.impl_root(root).ckd(i)))[h])(how)
        ways["%s(parent).ckd" % how] = (lambda h: lambda: dict(hdscen.clones(hdscen.impl_root(root)))[h].ckd(i))(how)
    viols = []
    cls = "hardened" if i >= H else "normal"
    for name, f in ways.items():
        if root.get("depth") and name.startswith(("wallet.by_path",)):
            continue
        st, node = attempt(f)
        if st != "ok" and name.startswith(("copy.", "pickle")) and str(node).startswith("KeyError"):
            continue          # this way of duplicating is not offered by the class
        if st != "ok":
            viols.append(V("%s:entry:%s:%s:refused" % (P, name, cls), "%s for index %d on %r raised %s" % (name, i, root, node)))
            continue
        got = hdscen.canon_impl_node(node)
        if got != exp:
            viols.append(V("%s:entry:%s:%s:wrong-node" % (P, name, cls), "%s for index %d on %r" % (name, i, root), got, exp))
            continue
        sst, strs = attempt(node_strings, node)
        if sst != "ok" or strs != ref_strings(refn, t):
            viols.append(V("%s:entry:%s:%s:wrong-strings" % (P, name, cls), "extended keys via %s for index %d" % (name, i), strs, ref_strings(refn, t)))
    return viols


SIB_ROOT = {"k": 0x51b1105 * 2**200 + 0xabcdef, "chain": "9d" * 32}


class Siblings:
    """many DIFFERENT children requested from ONE parent object, then an early one again: the answer must be the reference child
    of that index whatever the node remembers about its children. canon = the history."""

    def ops(self, hist):
        return [0, 1, H, H + 1]

    def run(self, hist):
        root = hdscen.impl_root(SIB_ROOT)
        rr = hdscen.ref_root(SIB_ROOT)
        viols, label = [], "init"
        st, node = ("ok", None)
        for i in hist:
            st, node = attempt(root.ckd, i)
        if hist:
            i = hist[-1]
            exp = hdscen.canon_ref_node(hd.derive(rr, [i]))
            cls = "hardened" if i >= H else "normal"
            if st != "ok":
                viols.append(V("%s:siblings:%s:refused" % (P, cls), "after %d other children of the same parent object, ckd(%d) raised %s" % (len(hist) - 1, i, node)))
            elif hdscen.canon_impl_node(node) != exp:
                viols.append(V("%s:siblings:%s:wrong-node" % (P, cls), "after %d other children of the same parent object, ckd(%d) returns another node" % (len(hist) - 1, i),
                               hdscen.canon_impl_node(node), exp))
            else:
                sst, strs = attempt(node_strings, node)
                if sst != "ok" or strs != ref_strings(hd.derive(rr, [i])):
                    viols.append(V("%s:siblings:%s:wrong-strings" % (P, cls), "after %d other children, the keys printed for child %d are wrong" % (len(hist) - 1, i)))
            label = "violation" if viols else "sibling-ok"
        return {"canon": hist, "viols": viols, "label": label}


def _ev_judge(i):
    """single steps on MANY distinct parents (normal and hardened alternate)"""
    root = {"k": 0xD15C0 + 977 * i, "chain": "%064x" % (0x5eed + i)}
    # even positions of the probe: normal child; the probe is run a second time with hardened children (see run())
    return chk_step(root, 0 if i < 10**5 else H + 1, ("real", None))[2]


def execute(case):
    if "hist" in case and case.get("layer", "").startswith("sibling-revisits"):
        from ..core import isolated
        r = isolated(Siblings().run, case["hist"])
        for v in r["viols"]:
            v["case"] = case
        return R(r["label"], viols=r["viols"])
    if "hist" in case and case.get("layer") == "distinct-parent-revisits":
        from ..core import isolated
        from ..bfs import PureCalls
        r = isolated(PureCalls(10**6, _ev_judge, P).run, case["hist"])
        for v in r["viols"]:
            v["case"] = case
        return R(r["label"], viols=r["viols"])
    if case["k"] == "step":
        if case["mode"][0] != "real":
            from ..core import isolated      # substituted PRF: a fresh process, so no cache filled under another PRF can answer
            o, nt, vs = isolated(chk_step, case["root"], case["i"], tuple(case["mode"]))
        else:
            o, nt, vs = chk_step(case["root"], case["i"], tuple(case["mode"]))
        return R(o, nontrivial=nt, viols=vs)
    if case["k"] == "entry":
        vs = chk_entry(case["root"], case["i"])
        for v in vs:
            v["case"] = case
        return R("violation" if vs else "all-entry-points-agree", viols=vs, n=10)
    if case["k"] == "tree":
        r = Tree(case["root"], case["alphabet"]).run(case["hist"])
        for v in r["viols"]:
            v["case"] = case
        return R(r["label"], viols=r["viols"])
    raise ValueError(case["k"])


def replay(case):
    if "hist" in case and (case.get("layer") == "distinct-parent-revisits" or case.get("layer", "").startswith("sibling-revisits")):
        return execute(case)["v"]
    if "hist" in case and "k" not in case:
        case = dict(case["model"], k="tree", hist=case["hist"])
    return execute(case)["v"]


def run(ctx):
    r = ctx.rng("c01")
    lz = lambda z: int.from_bytes(b"\x00" * z + bytes(r.randrange(1, 256) for _ in range(32 - z)), "big")
    K = [1, 2, N - 1, lz(16), r.randrange(1, N), 2**255, lz(1), (N - 1) // 2, 3, 0xff, 2**31, 2**64 - 1, lz(8), lz(31), N - 2, r.randrange(1, N)]
    CC = ["00" * 32, "ff" * 32, "%064x" % r.getrandbits(256), "00" * 31 + "01", "80" + "00" * 31]
    I = [0, 1, 2, 0x00010000, 0x01000000, H - 1, H, H + 1, 2**32 - 1, r.randrange(3, H - 1), H + r.randrange(3, H - 1)]
    Ks = K if ctx.thorough else K[:8]
    CCs = CC if ctx.thorough else CC[:3]
    depths = [0, 1, 127, 254] if ctx.thorough else [0, 254]
    cases = []
    for k in Ks:
        for cc in CCs:
            for d in depths:
                root = {"k": k, "chain": cc}
                if d:
                    root.update(depth=d, index=(H + 7 if d % 2 else 5), pfp="a1b2c3d4", parsed=(d in (1, 254)))
                for i in I:
                    for mode in MODES:
                        cases.append({"k": "step", "root": root, "i": i, "mode": list(mode)})
    # two layers, so that a worker process that forks the isolated children of the substituted-PRF cases has never executed the
    # implementation itself: a process-wide derivation cache filled under the REAL function would otherwise answer the same
    # (parent, index) under the substituted one without asking it
    ctx.product("single-step-product", [c for c in cases if c["mode"][0] == "real"], execute)
    ctx.product("single-step-prf-corners", [c for c in cases if c["mode"][0] != "real"], execute)
    oc = ctx.layers["single-step-prf-corners"]["outcomes"]
    lost, total = oc.get("injection-not-consumed", 0), sum(v for k, v in oc.items() if k != "mode-not-applicable")
    ctx.extra["prf_injections_not_consumed"] = lost
    if total and lost * 2 > total:
        raise HarnessError("seam lost: %d of %d substituted PRF answers were never consumed by the implementation (HMAC-SHA512 is reached through a "
                           "route the harness does not own)" % (lost, total))
    # corner classes of the computed intermediates (vf/corners.py): IL, IR, child scalar, parent x coordinate, parent fingerprint -
    # every byte position 00 / ff and every first / last byte value, once for normal and once for hardened children
    from .. import corners
    from ..ref import enc
    for hard in (False, True):
        base = int.from_bytes(enc.sha256(b"C01-corner-base-%d-%d" % (ctx.seed, hard)), "big") % (N - 10**6) + 1

        def cands():
            for n_, (k, pt) in enumerate(corners.scalar_walk(base, secp)):
                chain = enc.sha256(b"C01-chain-%d" % n_)
                i = (H if hard else 0) + int.from_bytes(enc.sha256(b"C01-idx-%d" % n_)[:4], "big") % H
                sec_ = secp.sec(pt)
                data = (b"\x00" + k.to_bytes(32, "big") if hard else sec_) + i.to_bytes(4, "big")
                I_ = enc.hmac_sha512(chain, data)
                il = int.from_bytes(I_[:32], "big")
                if il >= N or (il + k) % N == 0:
                    continue
                yield ({"k": k, "chain": chain.hex()}, i), {"IL": I_[:32], "IR": I_[32:], "child": ((il + k) % N).to_bytes(32, "big"),
                                                            "x": sec_[1:], "fp": enc.hash160(sec_)[:4]}
        kept, st = corners.cover(cands(), {"IL": 32, "IR": 32, "child": 32, "x": 32, "fp": 4}, 60000, pairs=ctx.thorough)
        ctx.extra["intermediate_corner_classes_" + ("hardened" if hard else "normal")] = st
        if st["covered"] != st["classes"]:
            raise HarnessError("corner cover incomplete: %r" % (st,))
        ctx.product("intermediate-corners-" + ("hardened" if hard else "normal"),
                    [{"k": "step", "root": c[0], "i": c[1], "mode": ["real", None]} for c, _ in kept] +
                    # ... and the cornered CHILD used as a parent in turn (its key bytes, fingerprint, chain code feed the next step)
                    [{"k": "tree", "root": c[0], "alphabet": [c[1], j], "hist": [c[1], j]} for n_, (c, _) in enumerate(kept) for j in (n_ % 7, H + n_ % 5)],
                    execute, chunk=8)
    # every entry point that derives a private child (ckd, derive_path, bulk generation with windows that straddle 2^31,
    # nodes and wallets built from the serialised parent, by_path) x the index alphabet x direct / parsed / testnet parents
    eroots = [{"k": K[3], "chain": CC[2]}, {"k": K[6], "chain": CC[2], "testnet": True},
              {"k": K[4], "chain": CC[2], "depth": 3, "index": H + 7, "pfp": "a1b2c3d4", "parsed": True}]
    ctx.product("entry-points", [{"k": "entry", "root": rt, "i": i} for rt in eroots for i in I + [H - 2, H + 2, 2**32 - 2]], execute, chunk=2)
    from ..bfs import eviction_probe, PureCalls
    ev_sizes = (1, 2, 3, 4, 5, 8, 9, 16, 17, 32, 33, 64, 65, 128, 129) + ((256, 257) if ctx.thorough else ())
    eviction_probe(ctx, "distinct-parent-revisits", PureCalls(10**6, _ev_judge, P), lambda i: i, sizes=ev_sizes)                 # normal children
    eviction_probe(ctx, "distinct-parent-revisits", PureCalls(10**6, _ev_judge, P), lambda i: 10**5 + i, sizes=ev_sizes[:13])    # hardened children
    # many children of ONE parent object, then an early index again (a per-node ring of remembered children)
    eviction_probe(ctx, "sibling-revisits", Siblings(), lambda i: i, sizes=ev_sizes)
    eviction_probe(ctx, "sibling-revisits-hardened", Siblings(), lambda i: H + i if i % 2 else i, sizes=ev_sizes[:13])
    ctx.extra["states"] = ctx.extra.get("states", 0)
    # (b) derivation-tree BFS
    roots = [{"k": hd.master(bytes.fromhex("000102030405060708090a0b0c0d0e0f")).k,
              "chain": hd.master(bytes.fromhex("000102030405060708090a0b0c0d0e0f")).chain.hex()},
             {"k": lz(8), "chain": "%064x" % r.getrandbits(256), "depth": 3, "index": H + 1, "pfp": "01020304", "parsed": True, "testnet": True},
             {"k": N - 1, "chain": "ff" * 32}, {"k": 1, "chain": "00" * 32, "depth": 200, "index": 9, "pfp": "ffffffff", "parsed": True}]
    alpha = [0, 1, H, H + 1, H - 1, "fail"] + ([2**32 - 1] if ctx.thorough else [])
    depth = 4 if ctx.thorough else 3
    for n, root in enumerate(roots[:4 if ctx.thorough else 2]):
        model = Tree(root, alpha)
        st = bfs(ctx, "derivation-tree-root%d" % n, model, depth, isolate=False)
        for smp in ctx.samples:
            if smp.get("layer") == "derivation-tree-root%d" % n and "history" in smp:
                smp["model"] = {"root": root, "alphabet": alpha}
    for v in ctx.violations:
        c = v.get("case")
        if isinstance(c, dict) and "hist" in c and "k" not in c and c.get("layer", "").startswith("derivation-tree-root"):
            n = int(c["layer"].replace("derivation-tree-root", ""))
            c["model"] = {"root": roots[n], "alphabet": alpha}
    return {"scalars": len(Ks), "chain_codes": len(CCs), "parent_depths": depths, "indexes": I, "prf_modes": [m[0] + ("" if m[1] is None else "=%x" % m[1]) for m in MODES],
            "tree_alphabet": alpha, "tree_depth": depth}
