"""C03 - mnemonic+passphrase -> seed -> master key follows BIP39/BIP32 for all text; constructors agree."""
import unicodedata

from ..core import attempt, V, R, HarnessError
from ..ref import hd, secp

LEVEL = "exploration"
P = "C03"
RULE = ("full product of a Unicode mnemonic alphabet (ASCII 12/24 words, composed/decomposed twins, Japanese with dakuten and U+3000 "
        "separators, Hangul syllables vs jamo, ligatures, full-width forms, U+212B/U+00C5, astral-plane characters, empty string) x "
        "a passphrase alphabet of the same shapes x {mainnet,testnet}; EVERY code point that NFKD changes (5,857 outside the Hangul syllable "
        "block; thorough: all 17,029) inside mnemonic and passphrase; ALL seed lengths 0..80 x 3 byte patterns through master_key and "
        "the seed constructors; constructor equivalence for 5 entropy sizes x 4 patterns x passphrases through from_entropy_hex, "
        "from_mnemonic, from_bip39_seed_bytes/_hex, from_extended_key(xprv/tprv) and new_wallet (re-created from its own mnemonic). "
        "Oracle: own PBKDF2-HMAC-SHA512 loop (2048, 64) with salt 'mnemonic'+NFKD(passphrase); HMAC 'Bitcoin seed'; twin pairs must "
        "give equal seeds. non-trivial = seed / master compared; distinct by construction"
        "; intermediate-corner classes (vf/corners.py) for the 64 seed bytes, master IL and IR through every constructor")

EN12 = "legal winner thank year wave sausage worth useful legal winner thank yellow"
EN24 = "letter advice cage absurd amount doctor acoustic avoid letter advice cage absurd amount doctor acoustic avoid letter advice cage absurd amount doctor acoustic bless"
JP = "あいこくしん　あいこくしん　あいこくしん　あいこくしん　あいこくしん　あいこくしん　あいこくしん　あいこくしん　あいこくしん　あいこくしん　あいこくしん　あおぞら"
_NFC = lambda t: unicodedata.normalize("NFC", t)
_NFD = lambda t: unicodedata.normalize("NFD", t)
M_ALPHA = [
    EN12, EN24,
    _NFC("caf\u00e9 \u00e9cole \u00e9t\u00e9"),          # 2 composed
    _NFD("caf\u00e9 \u00e9cole \u00e9t\u00e9"),          # 3 decomposed twin
    JP,                                                   # 4 ideographic spaces (NFKD turns U+3000 into U+0020), kana
    _NFC("\u304c \u304e \u3050"),                        # 5 precomposed dakuten (ga gi gu)
    _NFD("\u304c \u304e \u3050"),                        # 6 combining dakuten twin
    _NFC("\ud55c\uad6d\uc5b4 \ub2e8\uc5b4"),             # 7 Hangul syllables
    _NFD("\ud55c\uad6d\uc5b4 \ub2e8\uc5b4"),             # 8 jamo twin
    "\ufb01ne of\ufb01ce",                                # 9 ligature fi (compatibility)
    "fine office",                                        # 10 twin
    "\uff41\uff42\uff43\u3000\uff44\uff45\uff46",        # 11 full-width + U+3000
    "abc def",                                            # 12 twin
    "\u212bngstr\u00f6m",                                 # 13 ANGSTROM SIGN
    "A\u030angstro\u0308m",                               # 14 fully decomposed twin
    "zoo \U0001d518\U0001d52b\U0001d526 \U0001f600",     # 15 astral plane, maths alphanumerics
    "",                                                   # 16
    EN12.replace(" ", "  ", 1),                           # 17 doubled space (BIP39 does not collapse whitespace)
    EN12 + "\n",                                          # 18 trailing newline
    " " + EN12,                                           # 19 leading space
    EN12.replace(" ", "\t"),                              # 20 tab separated
    EN12.upper(),                                         # 21 upper case (no case folding in BIP39)
    EN12 + " horse",                                      # 22 } the same characters split differently between sentence and
    EN12 + " ho",                                         # 23 } passphrase (a cache keyed by the concatenation confuses them)
]
P_ALPHA = ["", "TREZOR", _NFC("p\u00e4ssw\u00f6rd"), _NFD("p\u00e4ssw\u00f6rd"), "\uff50\uff41\uff53\uff53", "pass", "\ufb01", "fi", " lead", "trail ",
           "\u212b", "A\u030a", "\U0001f600", "\u30e1\u30fc\u30c8\u30eb\u30ac\u30d0\u30f4\u30a1\u3071\u3070\u3050\u309e\u3061\u3062\u5341\u4eba\u5341\u8272",
           "\u3000", " ", " horse", "rse", "mnemonic"]
TWINS_M = [(2, 3), (5, 6), (7, 8), (9, 10), (11, 12), (13, 14)]
TWINS_P = [(2, 3), (4, 5), (6, 7), (10, 11), (14, 15)]


def chk_text(mi, pi):
    from btc_hd_wallet import bip39
    from btc_hd_wallet.bip32 import PrvKeyNode
    from btc_hd_wallet.base_wallet import BaseWallet
    m, p = M_ALPHA[mi], P_ALPHA[pi]
    viols = []
    exp = hd.seed_from_mnemonic(m, p)
    st, seed = attempt(bip39.bip39_seed_from_mnemonic, m, p)
    shape = "ascii" if (m + p).isascii() else "unicode"
    if st != "ok" or seed != exp:
        return [V("%s:bip39_seed_from_mnemonic:%s:wrong-seed" % (P, shape), "seed for mnemonic #%d %r / passphrase #%d %r" % (mi, m[:30], pi, p),
                  seed.hex() if st == "ok" else seed, exp.hex())]
    if p == "":
        st, seed0 = attempt(bip39.bip39_seed_from_mnemonic, m)
        if st != "ok" or seed0 != exp:
            viols.append(V(P + ":bip39_seed_from_mnemonic:default-passphrase:wrong-seed", "default passphrase differs from ''"))
    rm = hd.master(exp)
    for testnet in (False, True):
        st, w = attempt(BaseWallet.from_mnemonic, m, p, testnet)
        if st != "ok":
            viols.append(V("%s:from_mnemonic:%s:refused" % (P, shape), "from_mnemonic raised %s" % w))
            continue
        key = bytes(w.master.key)
        if int.from_bytes(key, "big") != rm.k or bytes(w.master.chain_code) != rm.chain or len(key) not in (32, 33):
            viols.append(V("%s:from_mnemonic:%s:wrong-master" % (P, "testnet" if testnet else "mainnet"),
                           "master of mnemonic #%d / passphrase #%d" % (mi, pi), key.hex(), "%064x" % rm.k))
            continue
        xs = w.master.extended_private_key()
        if xs != hd.xprv(rm, 0x04358394 if testnet else 0x0488ADE4):
            viols.append(V("%s:from_mnemonic:%s:wrong-xprv" % (P, "testnet" if testnet else "mainnet"), "master xprv", xs,
                           hd.xprv(rm, 0x04358394 if testnet else 0x0488ADE4)))
        # what the wallet remembers of its inputs is not fixed by the property (it may keep a normalised form); but IF it
        # exposes a mnemonic and passphrase as text, they must regenerate the very key material it holds, and a network flag
        # must be the requested one
        wm, wp = getattr(w, "mnemonic", None), getattr(w, "password", None)
        if isinstance(wm, str) and isinstance(wp, str) and hd.seed_from_mnemonic(wm, wp) != exp:
            viols.append(V(P + ":from_mnemonic:remembered-text:other-seed", "the mnemonic/passphrase the wallet remembers (%r / %r) do not give its own seed" % (wm[:30], wp)))
        if getattr(w, "testnet", testnet) != testnet:
            viols.append(V(P + ":from_mnemonic:network-flag:wrong", "wallet built with testnet=%r reports testnet=%r" % (testnet, w.testnet)))
    return viols


def chk_twins():
    from btc_hd_wallet import bip39
    viols = []
    n = 0
    for a, b in TWINS_M:
        for p in P_ALPHA[:4]:
            n += 1
            if bip39.bip39_seed_from_mnemonic(M_ALPHA[a], p) != bip39.bip39_seed_from_mnemonic(M_ALPHA[b], p):
                viols.append(V(P + ":bip39_seed_from_mnemonic:mnemonic-twins:differ", "canonically equivalent mnemonics #%d/#%d give different seeds" % (a, b)))
    for a, b in TWINS_P:
        for m in (EN12, M_ALPHA[2]):
            n += 1
            if bip39.bip39_seed_from_mnemonic(m, P_ALPHA[a]) != bip39.bip39_seed_from_mnemonic(m, P_ALPHA[b]):
                viols.append(V(P + ":bip39_seed_from_mnemonic:passphrase-twins:differ", "canonically equivalent passphrases #%d/#%d give different seeds" % (a, b)))
    return n, viols


def chk_seed(L, pat):
    from btc_hd_wallet.bip32 import PrvKeyNode
    from btc_hd_wallet.base_wallet import BaseWallet
    if pat == "lzmaster":          # a seed whose master key has a leading zero byte (searched with the reference)
        i = 0
        while True:
            seed = i.to_bytes(4, "big") * 16
            try:
                if hd.master(seed).k < 2**248:
                    break
            except ValueError:
                pass
            i += 1
    else:
        seed = {"00": b"\x00" * L, "ff": b"\xff" * L, "inc": bytes((i * 7 + 1) % 256 for i in range(L))}[pat]
    try:
        rm = hd.master(seed)
    except ValueError:
        return "skipped-invalid-master", []
    viols = []
    for testnet in (False, True):
        outs = {"master_key": attempt(PrvKeyNode.master_key, seed, testnet),
                "from_bip39_seed_bytes": attempt(lambda: BaseWallet.from_bip39_seed_bytes(seed, testnet).master),
                "from_bip39_seed_hex": attempt(lambda: BaseWallet.from_bip39_seed_hex(seed.hex(), testnet).master),
                "from_bip39_seed_hex(upper)": attempt(lambda: BaseWallet.from_bip39_seed_hex(seed.hex().upper(), testnet).master)}
        for name, (st, node) in outs.items():
            if st != "ok":
                viols.append(V("%s:%s:len=%d:refused" % (P, name, L) if L in (0, 16, 32, 64) else "%s:%s:seed-length:refused" % (P, name),
                               "%s refused a %d-byte seed: %s" % (name, L, node)))
                continue
            if int.from_bytes(bytes(node.key), "big") != rm.k or bytes(node.chain_code) != rm.chain or node.depth != 0 or node.index != 0 \
                    or node.testnet != testnet:
                viols.append(V("%s:%s:seed-length:wrong-master" % (P, name), "master from %d-byte seed (%s)" % (L, pat),
                               bytes(node.key).hex(), "%064x" % rm.k))
    return "masters-agree", viols


def chk_ctor(ent_hex, pi):
    from btc_hd_wallet.base_wallet import BaseWallet
    from btc_hd_wallet.paper_wallet import PaperWallet
    p = P_ALPHA[pi]
    ent = bytes.fromhex(ent_hex)
    sentence = hd.mnemonic_from_entropy(ent)
    seed = hd.seed_from_mnemonic(sentence, p)
    rm = hd.master(seed)
    viols = []
    for testnet in (False, True):
        xp = hd.xprv(rm, 0x04358394 if testnet else 0x0488ADE4)
        ctors = {
            "from_entropy_hex": lambda: BaseWallet.from_entropy_hex(ent_hex, p, testnet),
            "from_mnemonic": lambda: BaseWallet.from_mnemonic(sentence, p, testnet),
            "from_bip39_seed_bytes": lambda: BaseWallet.from_bip39_seed_bytes(seed, testnet),
            "from_bip39_seed_hex": lambda: BaseWallet.from_bip39_seed_hex(seed.hex(), testnet),
            "from_extended_key": lambda: BaseWallet.from_extended_key(xp),
            "PaperWallet.from_entropy_hex": lambda: PaperWallet.from_entropy_hex(ent_hex, p, testnet),
        }
        for name, f in ctors.items():
            st, w = attempt(f)
            if st != "ok":
                viols.append(V("%s:%s:constructor:refused" % (P, name), "%s raised %s" % (name, w)))
                continue
            if int.from_bytes(bytes(w.master.key), "big") != rm.k or bytes(w.master.chain_code) != rm.chain or w.testnet != testnet:
                viols.append(V("%s:%s:constructor:%s:different-master" % (P, name, "testnet" if testnet else "mainnet"),
                               "%s(entropy %s, passphrase #%d) holds a different master" % (name, ent_hex, pi),
                               bytes(w.master.key).hex(), "%064x" % rm.k))
            elif w.master.extended_private_key() != xp:
                viols.append(V("%s:%s:constructor:wrong-xprv" % (P, name), "master xprv via %s" % name, w.master.extended_private_key(), xp))
            if name in ("from_entropy_hex", "PaperWallet.from_entropy_hex") and st == "ok" and w.mnemonic != sentence:
                viols.append(V("%s:%s:constructor:wrong-mnemonic" % (P, name), "mnemonic echoed by %s" % name, w.mnemonic, sentence))
    return viols


def chk_new(length, pi, testnet):
    from btc_hd_wallet.base_wallet import BaseWallet
    p = P_ALPHA[pi]
    st, w = attempt(BaseWallet.new_wallet, length, p, testnet)
    if st != "ok":
        return [V(P + ":new_wallet:constructor:refused", "new_wallet(%d) raised %s" % (length, w))]
    try:
        ent, ok = hd.mnemonic_decode(w.mnemonic)
    except ValueError as e:
        return [V(P + ":new_wallet:mnemonic:undecodable", "new wallet mnemonic %r: %s" % (w.mnemonic, e))]
    rm = hd.master(hd.seed_from_mnemonic(w.mnemonic, p))
    if not ok or len(w.mnemonic.split(" ")) != length:
        return [V(P + ":new_wallet:mnemonic:bad-checksum-or-length", "new wallet mnemonic %r" % w.mnemonic)]
    if int.from_bytes(bytes(w.master.key), "big") != rm.k or bytes(w.master.chain_code) != rm.chain or getattr(w, "testnet", testnet) != testnet:
        return [V(P + ":new_wallet:constructor:different-master", "new_wallet master is not the master of its own mnemonic+passphrase")]
    w2 = BaseWallet.from_mnemonic(w.mnemonic, p, testnet)
    if not (w2 == w):
        return [V(P + ":new_wallet:constructor:not-reproducible", "wallet re-created from the echoed mnemonic differs")]
    return []


def chk_codepoints(lo, hi, hangul):
    """every code point in [lo, hi) that NFKD changes, once inside the mnemonic and once inside the passphrase"""
    from btc_hd_wallet import bip39
    viols, n = [], 0
    for cp in range(lo, hi):
        if 0xD800 <= cp <= 0xDFFF or (0xAC00 <= cp <= 0xD7A3) != hangul:
            continue
        ch = chr(cp)
        if unicodedata.normalize("NFKD", ch) == ch:
            continue
        n += 1
        m, p = "zoo " + ch + " wrong", "pw" + ch
        st, seed = attempt(bip39.bip39_seed_from_mnemonic, m, p)
        exp = hd.seed_from_mnemonic(m, p)
        if st != "ok" or seed != exp:
            viols.append(V(P + ":bip39_seed_from_mnemonic:code-point:wrong-seed", "seed for text containing U+%04X" % cp,
                           seed.hex()[:32] if st == "ok" else seed, exp.hex()[:32], case={"k": "cps", "lo": cp, "hi": cp + 1, "hangul": hangul}))
            if len(viols) > 20:
                break
    return n, viols


_GRID = [(m, p) for m in (0, 1, 2) for p in (0, 1, 2)] + [(22, 0), (0, 16), (23, 17), (0, 18), (22, 18)]


def _ev_judge(i):
    """distinct (mnemonic, passphrase) pairs: seed function and wallet constructor"""
    from btc_hd_wallet import bip39
    from btc_hd_wallet.base_wallet import BaseWallet
    m, p = "zoo wrong %d able" % (i // 2), "pw%d" % (i % 2)
    exp = hd.seed_from_mnemonic(m, p)
    out = []
    st, seed = attempt(bip39.bip39_seed_from_mnemonic, m, p)
    if st != "ok" or seed != exp:
        out.append(V(P + ":bip39_seed_from_mnemonic:revisit:wrong-seed", "seed of (%r, %r)" % (m, p)))
    st, w = attempt(BaseWallet.from_mnemonic, m, p, bool(i % 3 == 0))
    rm = hd.master(exp)
    if st != "ok" or int.from_bytes(bytes(w.master.key), "big") != rm.k or bytes(w.master.chain_code) != rm.chain:
        out.append(V(P + ":from_mnemonic:revisit:wrong-master", "wallet from (%r, %r) holds another master" % (m, p)))
    return out


def _pure_judge(i):
    return chk_text(*_GRID[i])


def execute(case):
    k = case.get("k")
    if "hist" in case:
        from ..core import isolated
        from ..bfs import PureCalls
        judge = _ev_judge if case.get("layer") == "seed-revisits" else _pure_judge
        r = isolated(PureCalls(10**6, judge, P).run, case["hist"])
        for v in r["viols"]:
            v["case"] = case
        return R(r["label"], viols=r["viols"])
    if k == "cps":
        n, vs = chk_codepoints(case["lo"], case["hi"], case["hangul"])
        return R("violation" if vs else "code-points-ok", viols=vs, n=max(n, 1), nt=n)
    if k == "text":
        vs = chk_text(case["m"], case["p"])
        return R("violation" if vs else "seed-and-master-ok", viols=vs)
    if k == "twins":
        n, vs = chk_twins()
        return R("violation" if vs else "twins-equal", viols=vs, n=n)
    if k == "seed":
        o, vs = chk_seed(case["L"], case["pat"])
        return R("violation" if vs else o, viols=vs)
    if k == "ctor":
        vs = chk_ctor(case["ent"], case["p"])
        return R("violation" if vs else "constructors-agree", viols=vs)
    if k == "new":
        vs = chk_new(case["len"], case["p"], case["testnet"])
        return R("violation" if vs else "new-wallet-consistent", viols=vs)
    raise ValueError(k)


def replay(case):
    return execute(case)["v"]


def run(ctx):
    r = ctx.rng("c03")
    ms = range(len(M_ALPHA))
    ps = range(len(P_ALPHA))
    ctx.product("mnemonic-x-passphrase", [{"k": "text", "m": m, "p": p} for m in ms for p in ps], execute)
    ctx.product("normalisation-twins", [{"k": "twins"}], execute, parallel=False)
    # EVERY code point that NFKD changes (5,857 outside the Hangul syllable block; thorough adds the 11,172 syllables)
    blocks = [{"k": "cps", "lo": lo, "hi": lo + 0x400, "hangul": False} for lo in range(0, 0x110000, 0x400)]
    if ctx.thorough:
        blocks += [{"k": "cps", "lo": lo, "hi": lo + 0x200, "hangul": True} for lo in range(0xAC00, 0xD800, 0x200)]
    ctx.product("every-decomposable-code-point", blocks, execute, chunk=4)
    ctx.product("seed-lengths", [{"k": "seed", "L": L, "pat": pat} for L in range(0, 81) for pat in ("00", "ff", "inc")] +
                [{"k": "seed", "L": 64, "pat": "lzmaster"}], execute)
    ents = []
    for size in (16, 20, 24, 28, 32):
        ents += [b"\x00" * size, b"\xff" * size, bytes(r.randrange(256) for _ in range(size)), b"\x00" * 4 + bytes(r.randrange(256) for _ in range(size - 4))]
    pis = [0, 1, 2, 12] if not ctx.thorough else list(range(len(P_ALPHA)))
    ctx.product("constructor-equivalence", [{"k": "ctor", "ent": e.hex(), "p": p} for e in ents for p in pis], execute)
    # corner classes of the computed intermediates (vf/corners.py): the 64 seed bytes, master secret IL and chain code IR -
    # every byte position 00 / ff, every first / last byte value; each kept entropy goes through every constructor
    from .. import corners
    from ..ref import enc

    def cands():
        i = 0
        while True:
            ent = enc.sha256(b"C03-corner-%d-%d" % (ctx.seed, i))[:(16, 32, 24, 20, 28)[i % 5]]
            i += 1
            seed = hd.seed_from_mnemonic(hd.mnemonic_from_entropy(ent), "")
            I_ = enc.hmac_sha512(b"Bitcoin seed", seed)
            if not 0 < int.from_bytes(I_[:32], "big") < hd.N:
                continue
            yield ent, {"seed": seed, "IL": I_[:32], "IR": I_[32:]}
    kept, st = corners.cover(cands(), {"seed": 64, "IL": 32, "IR": 32}, 60000, pairs=ctx.thorough)
    ctx.extra["intermediate_corner_classes"] = st
    if st["covered"] != st["classes"]:
        raise HarnessError("corner cover incomplete: %r" % (st,))
    ctx.product("intermediate-corners", [{"k": "ctor", "ent": e.hex(), "p": 0} for e, _ in kept], execute, chunk=8)
    from ..bfs import bfs, long_histories, PureCalls
    model = PureCalls(len(_GRID), _pure_judge, P)
    bfs(ctx, "seed-call-histories", model, 3 if ctx.thorough else 2)
    long_histories(ctx, "seed-call-histories+long", model, rotations=9 if ctx.thorough else 3, rounds=2)
    from ..bfs import eviction_probe
    eviction_probe(ctx, "seed-revisits", PureCalls(10**6, _ev_judge, P), lambda i: i, sizes=(1, 2, 3, 4, 5, 8, 9, 16, 17, 32, 33))
    ctx.product("new-wallet", [{"k": "new", "len": L, "p": p, "testnet": t} for L in (12, 15, 18, 21, 24) for p in (0, 2) for t in (False, True)], execute)
    return {"mnemonics": len(list(ms)), "passphrases": len(list(ps))}
