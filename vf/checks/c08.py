"""C08 - new wallets draw their full entropy from the operating system's CSPRNG (scripted OS source, engine E4)."""
import contextlib
import itertools
import os
import random as _random

from ..core import attempt, V, R, isolated, HarnessError
from ..ref import hd
from .. import cli

LEVEL = "fault_enumeration"
P = "C08"
LENGTHS = {12: 128, 15: 160, 18: 192, 21: 224, 24: 256}
RULE = ("the OS random source (os.urandom, random._urandom, os.getrandom) is replaced by one scripted, logging source. For each entry point "
        "(BaseWallet.new_wallet, BaseWallet.from_entropy_bits, PaperWallet.new_wallet, mnemonic_from_entropy_bits, CLI 'new') x ALL five "
        "mnemonic lengths: the request size R is measured, then EVERY answer of the alphabet {all-zero, all-one, e_b for every bit b of the "
        "R requested bytes} is served; oracle: (1) R*8 >= ENT; (2) the mnemonic is a function of the answer only - identical under three "
        "states of the process-wide PRNG and in two separate processes, different for different answers; (3) decoded with the reference, "
        "every one of the ENT entropy bits takes both values and all mnemonics are pairwise distinct; (4) call histories of length <=3 over "
        "a 3-answer alphabet (27 per entry point): result j depends on answer j only; (5) with the REAL OS source, resetting random.seed "
        "does not repeat the wallet; (6) when every request to the OS source raises (NotImplementedError / OSError) no wallet is returned. non-trivial = a creation whose OS requests were logged and whose mnemonic was decoded; distinct = "
        "distinct (entry point, length, answer | history | PRNG state)"
        "; distinctness is judged by COUNT: among the single-bit answers over all R requested bytes at least ENT+1 distinct wallets (a design may ignore surplus bytes)")

ENTRIES = ["BaseWallet.new_wallet", "BaseWallet.from_entropy_bits", "PaperWallet.new_wallet", "mnemonic_from_entropy_bits", "cli-new"]


class Source:
    def __init__(self):
        self.requested = 0
        self.calls = 0
        self.stream = b""
        self.overrun = 0

    def arm(self, answer):
        self.stream, self.requested, self.calls, self.overrun = answer, 0, 0, 0

    def __call__(self, n, *a):
        lo = self.requested
        self.requested += n
        self.calls += 1
        chunk = self.stream[lo:lo + n]
        if len(chunk) < n:
            self.overrun += n - len(chunk)
            chunk += b"\x00" * (n - len(chunk))
        return chunk


@contextlib.contextmanager
def scripted(src):
    saved = (os.urandom, _random._urandom, getattr(os, "getrandom", None))
    os.urandom = src
    _random._urandom = src
    if saved[2] is not None:
        os.getrandom = src
    try:
        yield src
    finally:
        os.urandom, _random._urandom = saved[0], saved[1]
        if saved[2] is not None:
            os.getrandom = saved[2]


def create(entry, words, src=None):
    """-> mnemonic string"""
    from btc_hd_wallet.base_wallet import BaseWallet
    from btc_hd_wallet.paper_wallet import PaperWallet
    from btc_hd_wallet import bip39
    if entry == "BaseWallet.new_wallet":
        return BaseWallet.new_wallet(mnemonic_length=words).mnemonic
    if entry == "BaseWallet.from_entropy_bits":
        return BaseWallet.from_entropy_bits(entropy_bits=LENGTHS[words]).mnemonic
    if entry == "PaperWallet.new_wallet":
        return PaperWallet.new_wallet(mnemonic_length=words, password="pw", testnet=True).mnemonic
    if entry == "mnemonic_from_entropy_bits":
        return bip39.mnemonic_from_entropy_bits(LENGTHS[words])
    if entry == "cli-new":
        import json
        res = cli.run_inprocess(["--interval", "0", "1", "new", "--mnemonic-len", str(words)], urandom=src)
        if res["status"] != 0:
            raise RuntimeError("cli new failed: " + res["stderr"][-200:])
        return json.loads(res["stdout"])["MASTER"]["mnemonic"]
    raise ValueError(entry)


def set_prng(state):
    if state == "seed0":
        _random.seed(0)
    elif state == "seed1":
        _random.seed(1)
    elif state == "after1000":
        _random.seed(12345)
        for _ in range(1000):
            _random.random()


def one_creation(entry, words, answer, prng="seed0"):
    """-> dict(mnemonic, requested, calls, overrun) ; runs under the scripted source"""
    src = Source()
    with scripted(src):
        set_prng(prng)
        src.arm(answer)
        st, m = attempt(create, entry, words, src)
    return {"st": st, "mnemonic": m, "requested": src.requested, "calls": src.calls, "overrun": src.overrun}


def measure(entry, words):
    r = one_creation(entry, words, b"")
    if r["st"] != "ok":
        raise HarnessError("creation via %s (%d words) failed under the scripted source: %s" % (entry, words, r["mnemonic"]))
    return r["requested"]


def chk_answers(entry, words, lo=None, hi=None):
    """lo/hi: slice of the answer alphabet handled by this call (None = all, with the cross-answer verdicts)"""
    ent_bits = LENGTHS[words]
    viols, n = [], 0
    Rb = measure(entry, words)
    if Rb * 8 < ent_bits:
        viols.append(V("%s:%s:os-bytes-requested:too-few" % (P, entry), "%d-word creation requested %d bytes from the OS source, needs >= %d" % (
            words, Rb, ent_bits // 8), Rb, ent_bits // 8))
    if Rb == 0:
        return 1, viols, {"R": 0}
    answers = [b"\x00" * Rb, b"\xff" * Rb] + [(1 << b).to_bytes(Rb, "big") for b in range(Rb * 8)]
    total = len(answers)
    if lo is not None:
        answers = answers[lo:hi]
    seen, ents = {}, []
    for a in answers:
        r = one_creation(entry, words, a)
        n += 1
        if r["st"] != "ok":
            viols.append(V("%s:%s:creation:raised" % (P, entry), "creation raised %s for OS answer %s" % (r["mnemonic"], a.hex()[:40])))
            return n, viols, {"R": Rb}
        if r["requested"] != Rb:
            viols.append(V("%s:%s:os-bytes-requested:varies" % (P, entry), "bytes requested depend on the answer (%d vs %d)" % (r["requested"], Rb)))
        try:
            ent, ok = hd.mnemonic_decode(r["mnemonic"])
        except ValueError as e:
            viols.append(V("%s:%s:mnemonic:undecodable" % (P, entry), "mnemonic %r: %s" % (r["mnemonic"], e)))
            return n, viols, {"R": Rb}
        if not ok or len(ent) * 8 != ent_bits:
            viols.append(V("%s:%s:mnemonic:wrong-size-or-checksum" % (P, entry), "mnemonic %r" % r["mnemonic"]))
            return n, viols, {"R": Rb}
        seen.setdefault(r["mnemonic"], a)
        ents.append(int.from_bytes(ent, "big"))
    ones = zeros = 0
    for e in ents:
        ones |= e
        zeros |= ~e
    full = (1 << ent_bits) - 1
    if lo is not None:
        return n, viols, {"R": Rb, "entry": entry, "words": words, "ones": ones, "zeros": zeros & full, "mn": {m: a.hex() for m, a in seen.items()}, "total": total}
    viols += too_few_distinct(entry, words, len(seen), Rb)
    stuck1 = full & ~zeros      # bits that were 1 in every sample
    stuck0 = full & ~ones       # bits that were 0 in every sample
    if stuck0 or stuck1:
        bits = [ent_bits - 1 - i for i in range(ent_bits) if ((stuck0 | stuck1) >> (ent_bits - 1 - i)) & 1]
        msb = bool((stuck0 | stuck1) >> (ent_bits - 1))
        viols.append(V("%s:%s:entropy-bit:%s-never-varies" % (P, entry, "msb" if msb else "some-bit"),
                       "%d words: entropy bit(s) %r (bit %d = most significant) never change over %d different OS answers" % (words, bits[:6], ent_bits - 1, len(answers))))
    return n, viols, {"R": Rb}


def too_few_distinct(entry, words, distinct, Rb):
    """the answer alphabet = all-zero, all-one and every single-bit answer over the R requested bytes. A design may request
    more than ENT/8 bytes and ignore the rest (answers that differ only in ignored bits then coincide - an artefact of the
    substitution, not a defect); but ENT bits of the answer must each change the wallet, so at least ENT + 1 distinct wallets
    must appear among the answers."""
    ent_bits = LENGTHS[words]
    if Rb * 8 >= ent_bits and distinct < ent_bits + 1:
        return [V("%s:%s:distinct-answers:same-wallet" % (P, entry), "%d words: the %d single-bit OS answers (+ all-zero, all-one) give only %d distinct mnemonics; "
                  "%d entropy bits need at least %d" % (words, Rb * 8, distinct, ent_bits, ent_bits + 1), distinct, ent_bits + 1)]
    return []


def chk_function_of_answer(entry, words):
    """same answer, different PRNG states / separate processes => same mnemonic"""
    Rb = measure(entry, words)
    viols, n = [], 0
    if Rb == 0:
        # nothing is taken from the OS: then the result must still not follow the seedable PRNG (clause 5 decides)
        return 1, viols
    a = bytes((i * 89 + 17) % 256 for i in range(Rb))
    base = None
    for state in ("seed0", "seed1", "after1000"):
        r = one_creation(entry, words, a, prng=state)
        n += 1
        if base is None:
            base = r["mnemonic"]
        elif r["mnemonic"] != base:
            viols.append(V("%s:%s:prng-state:changes-result" % (P, entry), "%d words: same OS answer, PRNG state %s gives a different mnemonic" % (words, state)))
    for _ in range(2):
        r = isolated(one_creation, entry, words, a, "seed1")
        n += 1
        if r["mnemonic"] != base:
            viols.append(V("%s:%s:separate-process:changes-result" % (P, entry), "%d words: same OS answer gives a different mnemonic in another process" % words))
    return n, viols


def chk_history(entry, words, hist):
    """hist = list of answer ids 0..2 ; result j must equal the single-call result of answer hist[j]"""
    Rb = measure(entry, words)
    alpha = [bytes((i * (7 + 4 * h) + 1 + 29 * h) % 256 for i in range(Rb)) for h in range(max(hist) + 1)]
    alpha[2 % len(alpha)] = b"\xa5" * Rb if len(alpha) > 2 else alpha[-1]
    single = [one_creation(entry, words, a)["mnemonic"] for a in alpha]
    src = Source()
    out = []
    with scripted(src):
        set_prng("seed0")
        for h in hist:
            src.arm(alpha[h])
            st, m = attempt(create, entry, words, src)
            out.append(m)
    viols = []
    for j, h in enumerate(hist):
        if out[j] != single[h]:
            viols.append(V("%s:%s:history:result-depends-on-earlier-calls" % (P, entry),
                           "%d words, history %r: call %d returned %r..., a fresh process returns %r... for the same OS answer" % (
                               words, hist, j, str(out[j])[:24], str(single[h])[:24])))
            break
    return viols


def chk_source_failure(entry, words, exc_name):
    """the OS source is unavailable (every request raises): a wallet that is returned anyway took its entropy elsewhere"""
    exc = {"NotImplementedError": NotImplementedError, "OSError": OSError}[exc_name]
    calls = []

    def failing(n, *a):
        calls.append(n)
        raise exc("OS random source unavailable (injected)")
    with scripted(failing):
        set_prng("seed0")
        st, m = attempt(create, entry, words, failing)
    if st == "ok":
        return [V("%s:%s:os-source-unavailable:wallet-created-anyway" % (P, entry),
                  "%d words: the OS source raised %s on every request (%d requests) but a mnemonic was returned: %r..." % (words, exc_name, len(calls), str(m)[:30]))]
    return []


def chk_real_source(entry, words):
    _random.seed(7)
    st, a = attempt(create, entry, words, None)
    _random.seed(7)
    st2, b = attempt(create, entry, words, None)
    if st != "ok" or st2 != "ok":
        return [V("%s:%s:real-source:raised" % (P, entry), "creation raised %s" % (a if st != "ok" else b))]
    if a == b:
        return [V("%s:%s:real-source:repeats-after-reseeding-prng" % (P, entry), "%d words: two wallets created after random.seed(7) are identical (%r...)" % (words, a[:30]))]
    return []


def execute(case):
    k = case["k"]
    if k == "answers":
        n, vs, x = isolated(chk_answers, case["entry"], case["words"], case.get("lo"), case.get("hi"))
        return R("violation" if vs else "all-answers-ok", viols=vs, n=n, extra=x)
    if k == "function":
        n, vs = isolated(chk_function_of_answer, case["entry"], case["words"])
        return R("violation" if vs else "function-of-os-answer", viols=vs, n=n)
    if k == "history":
        vs = isolated(chk_history, case["entry"], case["words"], case["hist"])
        return R("violation" if vs else "history-independent", viols=vs)
    if k == "fail":
        vs = isolated(chk_source_failure, case["entry"], case["words"], case["exc"])
        return R("violation" if vs else "refused-without-os-entropy", viols=vs)
    if k == "real":
        vs = isolated(chk_real_source, case["entry"], case["words"])
        return R("violation" if vs else "real-source-fresh", viols=vs)
    raise ValueError(k)


def replay(case):
    return execute(case)["v"]


def run(ctx):
    entries = ENTRIES if ctx.thorough else ENTRIES[:2] + ENTRIES[3:]
    cases = []
    for e in entries:
        for w in LENGTHS:
            if e == "cli-new" and not ctx.thorough and w not in (12, 24):
                continue
            total = 2 + 8 * 64              # room for designs that request up to 64 bytes; slices beyond the real alphabet are empty
            step = 24 if e != "cli-new" else 8
            cases += [{"k": "answers", "entry": e, "words": w, "lo": lo, "hi": lo + step} for lo in range(0, total, step)]
    agg = ctx.product("os-answer-alphabet", cases, execute, chunk=1)
    # cross-answer verdicts: merge the slices of each (entry, words)
    groups = {}
    for x in agg["x"]:
        if "entry" in x:
            groups.setdefault((x["entry"], x["words"]), []).append(x)
    for (e, w), xs in sorted(groups.items()):
        bits = LENGTHS[w]
        full = (1 << bits) - 1
        ones = zeros = 0
        mn = {}
        for x in xs:
            ones |= x["ones"]
            zeros |= x["zeros"]
            for m, a in x["mn"].items():
                mn.setdefault(m, a)
        for v in too_few_distinct(e, w, len(mn), max(x["R"] for x in xs)):
            v["case"] = {"k": "answers", "entry": e, "words": w}
            ctx.violate("os-answer-alphabet", v)
        stuck = full & ~(ones & zeros)
        if stuck and len(mn) > 1:
            msb = bool(stuck >> (bits - 1))
            ctx.violate("os-answer-alphabet", V("%s:%s:entropy-bit:%s-never-varies" % (P, e, "msb" if msb else "some-bit"),
                                                "%d words: entropy bit mask %x never changes over %d different OS answers" % (w, stuck, len(mn)),
                                                case={"k": "answers", "entry": e, "words": w}))
    ctx.product("function-of-answer-only", [{"k": "function", "entry": e, "words": w} for e in entries for w in LENGTHS
                                            if not (e == "cli-new" and w not in (12, 24))], execute, chunk=1)
    hists = [list(h) for L in (1, 2, 3) for h in itertools.product(range(3), repeat=L)]
    hc = [{"k": "history", "entry": e, "words": w, "hist": h} for e in entries if e != "cli-new" for w in ((12, 24) if not ctx.thorough else LENGTHS) for h in hists]
    # long runs of consecutive creations (pools / ring buffers of OS bytes that wrap around): 12 creations with 12 different
    # answers, and 12 creations that revisit earlier answers
    for e in entries:
        if e == "cli-new":
            continue
        for w in LENGTHS:
            hc.append({"k": "history", "entry": e, "words": w, "hist": list(range(12))})
            hc.append({"k": "history", "entry": e, "words": w, "hist": [0, 1, 2, 3, 4, 5, 0, 1, 6, 7, 0, 8]})
    ctx.product("call-histories", hc, execute, chunk=4)
    ctx.product("os-source-unavailable", [{"k": "fail", "entry": e, "words": w, "exc": x} for e in entries for w in (12, 15, 24)
                                          for x in ("NotImplementedError", "OSError")], execute, chunk=2)
    ctx.product("real-os-source", [{"k": "real", "entry": e, "words": w} for e in ENTRIES[:4] for w in LENGTHS], execute, chunk=2)
    return {"entry_points": entries, "request_sizes": sorted({x["R"] for x in agg["x"]}), "prng_states": ["seed0", "seed1", "after1000"],
            "history_alphabet": 3, "history_max_len": 3}
