"""C15 - paranoia mode output contains no secret and leaves public data unchanged."""
import itertools
import json

from ..core import attempt, V, R
from ..ref import hd, enc
from .. import cli

LEVEL = "exploration"
P = "C15"
H = hd.H
RULE = ("wallet sources {mnemonic with long/Unicode/short passphrases, entropy hex, seed hex, xprv, tprv, zprv} x networks x accounts {0,5,"
        "2^31-2} x intervals {(0,1),(0,0),(0,3),(7,9),(7,7),(3,1)}: quick = every vector within 2 deviations of the default, thorough = full "
        "product, each through paranoia_mode(generate()) AND through the command line (--paranoia to stdout and to -f; deviation bound 1, "
        "thorough 2). Oracle: EVERY key and value at every depth of the filtered structure / parsed CLI output is decoded with an "
        "independent Base58Check decoder (no WIF payload, no private extended key) and compared with every secret leaf of the unfiltered "
        "output (equality; containment for secrets >= 16 chars; the raw CLI text is scanned too); every path/address/SEC/pub of "
        "BIP44/49/84 must be present, identical and in order. non-trivial = output walked and compared; distinct by construction"
        "; intermediate-corner classes (vf/corners.py): first-row private key of each section (every byte position 00/ff, every first/last byte value, over 2,600 accounts) and account extended private keys whose text contains a field name of the schema")

LONG_PW = "correct horse battery staple - distinctive passphrase 8731"
SOURCES = [
    {"cmd": "from-mnemonic", "secret": "legal winner thank year wave sausage worth useful legal winner thank yellow", "password": LONG_PW},
    {"cmd": "from-mnemonic", "secret": "abandon abandon abandon abandon abandon abandon abandon abandon abandon abandon abandon about", "password": "pässwörd-ユニコード-𝔘"},
    {"cmd": "from-mnemonic", "secret": "letter advice cage absurd amount doctor acoustic avoid letter advice cage above", "password": "Zq"},
    {"cmd": "from-entropy-hex", "secret": "7f" * 20, "password": ""},
    {"cmd": "from-mnemonic", "secret": "legal winner thank year wave sausage worth useful legal winner thank yellow", "password": "xpu"},
    {"cmd": "from-mnemonic", "secret": "legal winner thank year wave sausage worth useful legal winner thank yellow", "password": "84"},
    {"cmd": "from-entropy-hex", "secret": "80" * 16, "password": "m/"},
    {"cmd": "from-bip39-seed", "secret": "5eb00bbddcf069084889a8ab9155568165f5c453ccb85e70811aaed6f6da5fc19a5ac40b389cd370d086206dec8aa6c43daea6690f20ad3d8d48b2d2ce9e38e4"},
    {"cmd": "from-master-xprv", "xk": ("prv", False, 44)},
    {"cmd": "from-master-xprv", "xk": ("prv", True, 44)},
    {"cmd": "from-master-xprv", "xk": ("prv", False, 84)},
]
ACCOUNTS = [0, 5, H - 2, 49]
INTERVALS = [[0, 1], [0, 0], [0, 3], [7, 9], [7, 7], [3, 1], [0, 4], [1, 6], [0, 2]]
ROOT = hd.node_from_priv(0x7A1B2C3D4E5F60718293A4B5C6D7E8F9000102030405060708090A0B0C0D0E0F, bytes.fromhex("c3" * 32))


_PURP = {}


def _purpose_node(purpose, coin=0):
    if (purpose, coin) not in _PURP:
        _PURP[(purpose, coin)] = hd.derive(ROOT, [H + purpose, H + coin])
    return _PURP[(purpose, coin)]


def _row_key_feats(a):
    """reference only: private key of row 0 of each section for account a (mainnet)"""
    return {"k%d" % p: hd.derive(_purpose_node(p), [H + a, 0, 0]).k.to_bytes(32, "big") for p in (44, 49, 84)}


def _acct_text_feats(a):
    """reference only: the account extended private keys as text"""
    return {"x%d" % p: hd.xprv(hd.ckd_priv(_purpose_node(p), H + a), hd.version_for("prv", False, p)).encode() for p in (44, 49, 84)}


def secret_of(src):
    if "xk" in src:
        kind, t, bip = src["xk"]
        return hd.xprv(ROOT, hd.version_for("prv", t, bip))
    return src["secret"]


def api_wallet(src, testnet):
    from btc_hd_wallet.paper_wallet import PaperWallet
    c = src["cmd"]
    if c == "from-mnemonic":
        return PaperWallet.from_mnemonic(src["secret"], src.get("password", ""), testnet)
    if c == "from-entropy-hex":
        return PaperWallet.from_entropy_hex(src["secret"], src.get("password", ""), testnet)
    if c == "from-bip39-seed":
        return PaperWallet.from_bip39_seed_hex(src["secret"], testnet)
    return PaperWallet.from_extended_key(secret_of(src))


def leaves(x):
    if isinstance(x, dict):
        for k, v in x.items():
            yield from leaves(k)
            yield from leaves(v)
    elif isinstance(x, (list, tuple)):
        for v in x:
            yield from leaves(v)
    else:
        yield x


def value_leaves(x):
    if isinstance(x, dict):
        for v in x.values():
            yield from value_leaves(v)
    elif isinstance(x, (list, tuple)):
        for v in x:
            yield from value_leaves(v)
    else:
        yield x


def secret_leaves(full, src):
    s = set()
    for l in leaves(full.get("MASTER", {})):
        if isinstance(l, str) and l not in ("mnemonic", "password", ""):
            s.add(l)
    for k, v in (full.get("BIP85") or {}).items():
        s.add(v)
    for name in ("BIP44", "BIP49", "BIP84"):
        s.add(full[name]["account_extended_keys"]["prv"])
        for row in full[name]["groups"]:
            s.add(row[3])
    if src.get("password"):
        s.add(src["password"])
    if src["cmd"] in ("from-mnemonic", "from-entropy-hex", "from-bip39-seed"):
        s.add(src["secret"])
        if src["cmd"] == "from-entropy-hex":
            s.add(hd.mnemonic_from_entropy(bytes.fromhex(src["secret"])))
    else:
        s.add(secret_of(src))
    s.discard(None)
    return {x for x in s if isinstance(x, str) and x}


def private_encoding(leaf):
    if not isinstance(leaf, str):
        return None
    try:
        p = enc.b58check_decode(leaf)
    except ValueError:
        return None
    if len(p) in (33, 34) and p[0] in (0x80, 0xEF):
        return "WIF"
    if len(p) == 78:
        v = int.from_bytes(p[:4], "big")
        if hd.SLIP132.get(v, ("", "", "", 0))[1] == "prv" or p[45] == 0:
            return "extended-private-key"
    return None


def audit(filtered, full, src, route, raw_text=None):
    viols = []
    secrets = secret_leaves(full, src)
    ls = list(leaves(filtered))
    for l in ls:
        pe = private_encoding(l)
        if pe:
            viols.append(V("%s:%s:leaf-decodes-as:%s" % (P, route, pe), "%s output contains %s %r" % (route, pe, l)))
            break
    vals = list(value_leaves(filtered))
    for l in ls:
        # equality with a SHORT secret is only meaningful for values (a passphrase may coincide with a schema key name)
        if isinstance(l, str) and any((l == s and (len(s) >= 16 or l in vals)) or (len(s) >= 16 and s in l) for s in secrets):
            which = "mnemonic-or-passphrase" if l in (src.get("secret"), src.get("password")) or " " in l else "secret-leaf"
            viols.append(V("%s:%s:secret-present:%s" % (P, route, which), "%s output contains the secret string %r" % (route, l[:60])))
            break
    if raw_text is not None:
        for s in secrets:
            if len(s) >= 16 and s in raw_text:
                viols.append(V("%s:%s:secret-in-raw-text" % (P, route), "raw %s text contains the secret %r" % (route, s[:40])))
                break
    # public data unchanged and complete. Judged on the LEAVES, not on the layout: every path / address / SEC / extended
    # public key of the unfiltered BIP44/49/84 sections must occur in the filtered output, nothing public may be new or
    # altered, and when the usual layout is kept the rows must be in the same order.
    out_leaves = [l for l in ls if isinstance(l, str)]
    out_set = set(out_leaves)
    public = []
    for name in ("BIP44", "BIP49", "BIP84"):
        ek = full[name]["account_extended_keys"]
        public += [ek["path"], ek["pub"]]
        for row in full[name]["groups"]:
            public += list(row[:3])
    missing = [p for p in public if p not in out_set]
    if missing:
        kind = "account-keys" if missing[0].startswith(("m/", "xpub", "ypub", "zpub", "tpub", "upub", "vpub")) and missing[0] in [full[n]["account_extended_keys"][k] for n in ("BIP44", "BIP49", "BIP84") for k in ("path", "pub")] else "rows"
        viols.append(V("%s:%s:public-data:%s-differ" % (P, route, kind), "%d public strings of the unfiltered output are missing from the %s output, e.g. %r" % (
            len(missing), route, missing[0])))
    # what else may appear: any string that the unfiltered output shows as well (a secret among them is caught above) and field names
    allowed = set(public) | {"BIP44", "BIP49", "BIP84", "account_extended_keys", "groups", "path", "pub"} | {l for l in leaves(full) if isinstance(l, str)}
    extra = [l for l in out_leaves if l not in allowed and len(l) >= 20]
    if extra:
        viols.append(V("%s:%s:public-data:altered-or-new-string" % (P, route), "the %s output contains %r, which is neither a public string of the unfiltered output nor a field name" % (
            route, extra[0][:60])))
    if not missing and isinstance(filtered, dict):
        for name in ("BIP44", "BIP49", "BIP84"):
            f = filtered.get(name)
            if isinstance(f, dict) and isinstance(f.get("groups"), list) and all(isinstance(r, list) and len(r) >= 3 for r in f["groups"]):
                if [list(r[:3]) for r in f["groups"]] != [list(r[:3]) for r in full[name]["groups"]]:
                    viols.append(V("%s:%s:public-data:rows-differ" % (P, route), "%s rows are not those of the unfiltered output in the same order" % name))
    return viols


def chk_api(si, testnet, account, interval):
    from btc_hd_wallet.__main__ import paranoia_mode
    src = SOURCES[si]
    w = api_wallet(src, testnet)
    full = w.generate(account, tuple(interval))
    st, filt = attempt(paranoia_mode, w.generate(account, tuple(interval)))
    if st != "ok":
        return [V(P + ":paranoia_mode:raised", "paranoia_mode raised %s" % filt)]
    return audit(filt, full, src, "paranoia_mode")


def chk_cli(si, testnet, account, interval, to_file):
    src = SOURCES[si]
    argv = ["--paranoia"]
    if testnet:
        argv.append("--testnet")
    if account is not None:
        argv += ["--account", str(account)]
    if interval is not None:
        argv += ["--interval", str(interval[0]), str(interval[1])]
    if to_file:
        argv += ["-f", "out.json"]
    argv += [src["cmd"], secret_of(src)]
    if src.get("password"):
        argv += ["--password", src["password"]]
    res = cli.run_inprocess(argv)
    if res["status"] != 0:
        # a refused run shows nothing - which leaks nothing. Whether this vector OUGHT to be served is C20's question; here only:
        # whatever a refused run printed or wrote must be free of secrets too
        w0 = api_wallet(src, src["xk"][1] if "xk" in src else testnet)
        st0, full0 = attempt(w0.generate, account if account is not None else 0, (0, 1))
        text = res["stdout"] + "".join(res["files"].values())
        return audit_text(text, full0, src, "cli-refused-run") if st0 == "ok" and text.strip() else []
    text = list(res["files"].values())[0] if to_file and res["files"] else res["stdout"]
    route = "cli-file" if to_file else "cli-stdout"
    try:
        data = json.loads(text)
    except ValueError:
        return [V("%s:%s:not-json" % (P, route), "argv %r: output is not JSON" % (argv,))]
    eff_testnet = src["xk"][1] if "xk" in src else testnet
    w = api_wallet(src, eff_testnet)
    full = w.generate(account if account is not None else 0, tuple(interval) if interval is not None else (0, 20))
    viols = audit(data, full, src, route, raw_text=res["stdout"] + "".join(res["files"].values()))
    if to_file and res["stdout"].strip():
        viols += audit_text(res["stdout"], full, src, "cli-stdout-with-file")
    return viols


def audit_text(text, full, src, route):
    for s in secret_leaves(full, src):
        if len(s) >= 16 and s in text:
            return [V("%s:%s:secret-in-raw-text" % (P, route), "text contains the secret %r" % s[:40])]
    return []


class FilterHistories:
    """paranoia_mode applied again and again in one process (one wallet, changing account): the last result is judged"""

    def ops(self, hist):
        # an int = filter a fresh mapping of that account; ["same", a] = refill ONE long-lived mapping object with account a's
        # wallet and filter it again (the filter sees the same object with new content)
        return [0, 1, 2, ["same", 0], ["same", 1]]

    def run(self, hist):
        from btc_hd_wallet.__main__ import paranoia_mode
        src = SOURCES[0]
        w = api_wallet(src, False)
        viols = []
        shared = {}
        for n, op in enumerate(hist):
            acct = op if isinstance(op, int) else op[1]
            full = w.generate(acct, (0, 1) if isinstance(op, int) else (acct, acct + 2))
            if isinstance(op, int):
                arg = w.generate(acct, (0, 1))
            else:
                shared.clear()
                shared.update(w.generate(acct, (acct, acct + 2)))
                arg = shared
            st, filt = attempt(paranoia_mode, arg)
            if n == len(hist) - 1:
                if st != "ok":
                    viols.append(V(P + ":paranoia_mode:history:raised", "after %d earlier calls paranoia_mode raised %s" % (n, filt)))
                else:
                    viols = audit(filt, full, src, "paranoia_mode(history)")
                    for v in viols:
                        v["msg"] = "after filtering accounts %r in the same process: %s" % (hist[:-1], v["msg"])
        return {"canon": hist, "viols": viols, "label": "violation" if viols else "filtered-ok"}


def execute(case):
    if "hist" in case:
        from ..core import isolated
        r = isolated(FilterHistories().run, case["hist"])
        for v in r["viols"]:
            v["case"] = case
        return R(r["label"], viols=r["viols"])
    if case["k"] == "api":
        vs = chk_api(case["src"], case["testnet"], case["account"], case["interval"])
    else:
        vs = chk_cli(case["src"], case["testnet"], case["account"], case["interval"], case["file"])
    return R("violation" if vs else "no-secret-and-public-intact:" + case["k"], viols=vs)


def replay(case):
    return execute(case)["v"]


def ball(dims, bound):
    names = list(dims)
    default = {n: dims[n][0] for n in names}
    out = []
    for r in range(bound + 1):
        for subset in itertools.combinations(names, r):
            for combo in itertools.product(*[dims[n][1:] for n in subset]):
                c = dict(default)
                c.update(zip(subset, combo))
                out.append(c)
    return out


def run(ctx):
    dims = {"src": list(range(len(SOURCES))), "testnet": [False, True], "account": ACCOUNTS, "interval": INTERVALS}
    if ctx.thorough:
        vecs = [dict(zip(dims, c)) for c in itertools.product(*dims.values())]
    else:
        vecs = ball(dims, 2)
    ctx.product("paranoia_mode-api", [dict(v, k="api") for v in vecs], execute, chunk=1)
    cdims = dict(dims, account=[None] + ACCOUNTS, interval=[[0, 1], None] + INTERVALS[1:], file=[False, True])
    cvecs = ball(cdims, 2 if ctx.thorough else 1)
    ctx.product("cli-paranoia", [dict(v, k="cli") for v in cvecs], execute, chunk=1)
    # corner classes of computed intermediates (vf/corners.py), driven by the account number below one imported master key:
    # (a) the private key of the FIRST row of each section - every byte position 00 / ff, every first / last byte value;
    # (b) an account extended PRIVATE key whose text contains a field name of the output schema ("pub", "prv")
    from .. import corners
    from ..core import HarnessError
    si = 8
    feats, lo = [], (ctx.seed * 50000) % (2**31 - 10**6)
    for rnd in range(12):                       # the candidate range grows until every class is covered (coupon collector tail)
        feats += corners.parallel_features(_row_key_feats, range(lo, lo + (2600 if rnd == 0 else 800)))
        lo += 2600 if rnd == 0 else 800
        kept, st = corners.cover(iter(feats), {"k44": 32, "k49": 32, "k84": 32}, 10**6, pairs=False)
        if st["covered"] == st["classes"]:
            break
    ctx.extra["intermediate_corner_classes_row_keys"] = st

    def wcands():
        a = (ctx.seed * 50000) % (2**31 - 10**6)
        while True:
            yield a, _acct_text_feats(a)
            a += 1
    kept2, st2 = corners.cover(wcands(), {}, 200000, positions=False, firstlast=False, pairs=False,
                               extra=[corners.contains_words(["x44", "x49", "x84"], ["pub", "prv"])])
    ctx.extra["intermediate_corner_classes_schema_words"] = st2
    if st["covered"] != st["classes"] or st2["covered"] != st2["classes"]:
        raise HarnessError("corner cover incomplete: %r %r" % (st, st2))
    cc = [{"k": "api", "src": si, "testnet": False, "account": a, "interval": [0, 1]} for a, _ in kept + kept2]
    cc += [{"k": "cli", "src": si, "testnet": False, "account": a, "interval": [0, 1], "file": False} for a, _ in kept2 + kept[::16]]
    ctx.product("intermediate-corners", cc, execute, chunk=4)
    from ..bfs import bfs, eviction_probe
    bfs(ctx, "filter-call-histories", FilterHistories(), 3 if ctx.thorough else 2, chunk=1)
    eviction_probe(ctx, "filter-call-histories+account-revisits", FilterHistories(), lambda i: i, sizes=(1, 2, 3, 4, 5) + ((8, 9) if ctx.thorough else ()), chunk=1)
    return {"deviation_bound_api": None if ctx.thorough else 2, "deviation_bound_cli": 2 if ctx.thorough else 1}
