"""C12 - BIP85 child secrets equal the specified derivation for every application and index."""
from ..core import attempt, V, R, isolated
from ..ref import hd
from .. import hdscen

LEVEL = "exploration"
P = "C12"
H = hd.H
N = hd.N
RULE = ("masters (the BIP85 reference xprv, keys from the scalar/chain-code boundary alphabet, one tprv, one wallet-held master) x "
        "indexes {0,1,2^31-1,seeded} x ALL five word counts, ALL 49 byte counts 16..64, ALL 67 password lengths 20..86, WIF, XPRV; "
        "out-of-range grid: word counts {0,11,13,25,-12,2^31+12}, byte counts {-16,0,15,65,2^31+16}, lengths {19,87,0,-20}, indexes "
        "{-1,-2,-2^31,2^31,2^32-1,2^32} for all five applications; pairwise distinctness of all results of one master. Oracle: "
        "reference BIP85 over reference BIP32 (all levels hardened). non-trivial = value compared with the reference / refusal "
        "observed; distinct by construction"
        "; intermediate-corner classes (vf/corners.py) for the path key and the 64 entropy bytes per application family; the paper wallet's BIP85 block as a request in the cross-master histories")

REF_XPRV = "xprv9s21ZrQH143K2LBWUUQRFXhucrQqBpKdRRxNVq2zBqsx8HVqFk2uYo8kmbaLLHRdqtQpUm98uKfu3vca1LqdGhUtyoFnCNkfmXRyPXLjbKb"


def mk(master):
    """master = {"xkey": str, "testnet": bool, "via": "from_xprv"|"wallet"} -> (impl bip85 object, ref master node)"""
    from btc_hd_wallet.bip85 import BIP85DeterministicEntropy
    from btc_hd_wallet.base_wallet import BaseWallet
    _, node = hd.parse_xkey(master["xkey"])
    if master.get("via") == "wallet":
        obj = BaseWallet.from_extended_key(master["xkey"]).bip85
    else:
        obj = BIP85DeterministicEntropy.from_xprv(master["xkey"], testnet=master.get("testnet", False))
    if master.get("clone"):
        # a duplicate of the object (copy.copy / copy.deepcopy / pickle round trip); the original if that way is not offered
        obj = dict(hdscen.clones(obj)).get(master["clone"], obj)
    return obj, node


APPS = {
    "mnemonic": (lambda b, p, i: b.bip39_mnemonic(word_count=p, index=i), hd.bip85_mnemonic),
    "hex": (lambda b, p, i: b.hex(num_bytes=p, index=i), hd.bip85_hex),
    "pwd": (lambda b, p, i: b.pwd(pwd_len=p, index=i), hd.bip85_pwd),
    "wif": (lambda b, p, i: b.wif(index=i), lambda m, p, i: hd.bip85_wif(m, i)),
    "xprv": (lambda b, p, i: b.xprv(index=i), lambda m, p, i: hd.bip85_xprv(m, i)),
}


def paper_block(master):
    """the BIP85 section a PAPER wallet built from this master prints (a wrapper one level up): must be the reference block"""
    from btc_hd_wallet.paper_wallet import PaperWallet
    _, node = hd.parse_xkey(master["xkey"])
    st, got = attempt(lambda: PaperWallet.from_extended_key(master["xkey"]).bip85_data())
    exp = hd.bip85_block(node)
    if st != "ok":
        return "violation", None, [V("%s:paper:in-range:refused" % P, "PaperWallet.bip85_data raised %s" % got)]
    bad = sorted(k for k in exp if got.get(k) != exp[k]) if isinstance(got, dict) else ["not a mapping"]
    if bad:
        return "violation", None, [V("%s:paper:in-range:wrong-value" % P, "BIP85 section of the paper wallet differs at %r" % (bad[:3],),
                                     str([got.get(k) for k in bad[:1]] if isinstance(got, dict) else got)[:120], str([exp[k] for k in bad[:1] if k in exp])[:120])]
    return "value-ok-paper", None, []


def one(master, app, param, index):
    if app == "paper":
        return paper_block(master)
    b, node = mk(master)
    f, rf = APPS[app]
    st, got = attempt(f, b, param, index)
    try:
        exp = ("ok", rf(node, param, index))
    except ValueError as e:
        exp = ("exc", str(e))
    if exp[0] == "exc":
        if st == "ok":
            cls = "index<0" if isinstance(index, int) and index < 0 else "index>=2^31" if isinstance(index, int) and index >= H else "param-out-of-range"
            return "violation", None, [V("%s:%s:%s:derived" % (P, app, cls),
                                         "bip85 %s(param=%r, index=%r) returned %r instead of raising (%s)" % (app, param, index, str(got)[:60], exp[1]))]
        return "refused-out-of-range", None, []
    if st != "ok":
        return "violation", None, [V("%s:%s:in-range:refused" % (P, app), "bip85 %s(param=%r, index=%r) raised %s" % (app, param, index, got))]
    if got != exp[1]:
        return "violation", None, [V("%s:%s:in-range:wrong-value" % (P, app), "bip85 %s(param=%r, index=%r)" % (app, param, index),
                                     str(got)[:120], str(exp[1])[:120])]
    return "value-ok-" + app, got, []


HIST_REQ = [("hex", 32, 0), ("wif", None, 0), ("mnemonic", 12, 0), ("pwd", 21, 1), ("xprv", None, 0), ("paper", None, 0)]


def hist_masters():
    k1, k2 = 0x1111111111111111111111111111111111111111111111111111111111111111, 0x2222222222222222222222222222222222222222222222222222222222222222
    c1, c2 = "aa" * 32, "bb" * 32
    return [{"xkey": hdscen.root_xkey({"k": k1, "chain": c1})}, {"xkey": hdscen.root_xkey({"k": k1, "chain": c2})},
            {"xkey": hdscen.root_xkey({"k": k2, "chain": c1})},
            {"xkey": hdscen.root_xkey({"k": k1, "chain": c1, "testnet": True}), "testnet": True},
            {"xkey": hdscen.root_xkey({"k": k1, "chain": c1, "depth": 2, "index": 7, "pfp": "0a0b0c0d"})},
            {"xkey": hdscen.root_xkey({"k": k1, "chain": c1}), "clone": "copy.deepcopy"},
            {"xkey": hdscen.root_xkey({"k": k2, "chain": c1}), "clone": "pickle"},
            {"xkey": hdscen.root_xkey({"k": k2, "chain": c2}), "clone": "copy.copy", "via": "wallet"}]


def _ev_req(i):
    """distinct (application, parameter, index) prefixes"""
    # every i has a DIFFERENT path prefix (application + parameter): 67 password lengths, 49 byte counts, then word counts x index
    if i % 2 == 0 and 20 + i // 2 <= 86:
        return ["pwd", 20 + i // 2, 1]
    if 16 + i // 2 <= 64:
        return ["hex", 16 + i // 2, 0]
    return ["mnemonic", (12, 15, 18, 21, 24)[i % 5], i]


class OneObjectHistories:
    """many requests on ONE long-lived BIP85 object; the last one is judged. canon = the history."""

    def ops(self, hist):
        return [_ev_req(i) for i in range(6)]

    def run(self, hist):
        b, node = mk(hist_masters()[0])
        out = None
        for app, param, idx in hist:
            f, rf = APPS[app]
            st, got = attempt(f, b, param, idx)
            out = (app, param, idx, st, got)
        if not hist:
            return {"canon": hist, "viols": [], "label": "init"}
        app, param, idx, st, got = out
        exp = APPS[app][1](node, param, idx)
        viols = []
        if st != "ok" or got != exp:
            viols.append(V("%s:%s:one-object-history:wrong-value" % (P, app), "after %d earlier requests on the same BIP85 object, %s(param=%r, index=%r) is wrong" % (
                len(hist) - 1, app, param, idx), str(got)[:60], str(exp)[:60]))
        return {"canon": hist, "viols": viols, "label": "violation" if viols else "value-ok"}


class CrossMasterHistories:
    """sequences of BIP85 requests against several masters that share key or chain code, in ONE process; each answer
    must equal the reference for its own master. canon = the history itself (module-level caches are unobservable)."""

    def ops(self, hist):
        ms = hist_masters()
        # duplicated objects answer the three cheapest requests only (keeps the tree of histories small)
        return [[m, r] for m in range(len(ms)) for r in range(len(HIST_REQ)) if not ms[m].get("clone") or r in (0, 1, 4)]

    def run(self, hist):
        ms = hist_masters()
        out = None
        for m, r in hist:
            app, param, idx = HIST_REQ[r]
            out = one(ms[m], app, param, idx)
        if not hist:
            return {"canon": hist, "viols": [], "label": "init"}
        label, _, viols = out
        for v in viols:
            v["key"] = v["key"].replace(":in-range:", ":history:")
            v["msg"] = "after requests %r in the same process: %s" % (hist[:-1], v["msg"])
        return {"canon": hist, "viols": viols, "label": label}


def execute(case):
    k = case.get("k")
    if "hist" in case:
        model = OneObjectHistories() if case.get("layer", "").startswith("one-object") else CrossMasterHistories()
        r = isolated(model.run, case["hist"])
        for v in r["viols"]:
            v["case"] = case
        return R(r["label"], viols=r["viols"])
    outcomes, viols, n = {}, [], 0
    values = []

    def acc(res, single):
        nonlocal n
        n += 1
        o, val, vs = res
        outcomes[o] = outcomes.get(o, 0) + 1
        if val is not None:
            values.append((single["app"], single["param"], single["index"], val))
        for v in vs:
            v["case"] = single
            viols.append(v)

    m = case["master"]
    if k == "one":
        acc(one(m, case["app"], case["param"], case["index"]), case)
    elif k == "sweep":
        i = case["index"]
        for app, params in (("mnemonic", (12, 15, 18, 21, 24)), ("hex", range(16, 65)), ("pwd", range(20, 87)), ("wif", (None,)), ("xprv", (None,))):
            for p in params:
                acc(one(m, app, p, i), {"k": "one", "master": m, "app": app, "param": p, "index": i})
        # distinct (application, parameter, index) triples must give distinct secrets
        seen = {}
        for app, p, idx, val in values:
            if val in seen:
                viols.append(V("%s:distinctness:same-secret-for-two-triples:collision" % P,
                               "%r and %r yield the same secret" % (seen[val], (app, p, idx)), case=case))
            seen[val] = (app, p, idx)
    else:
        raise ValueError(k)
    return R(outcomes, viols=viols, n=n, extra=[(a, p, i, v) for a, p, i, v in values] if k == "sweep" else None)


def replay(case):
    return execute(case)["v"]


def masters(ctx):
    r = ctx.rng("masters")
    ks = [1, N - 1, int.from_bytes(b"\x00" * 8 + bytes(r.randrange(256) for _ in range(24)), "big"), r.randrange(1, N), r.randrange(1, N)]
    ccs = ["00" * 32, "ff" * 32, "%064x" % r.getrandbits(256), "%064x" % r.getrandbits(256), "%064x" % r.getrandbits(256)]
    out = [{"xkey": REF_XPRV}]
    n = 4 if ctx.thorough else 2
    for i in range(n):
        out.append({"xkey": hdscen.root_xkey({"k": ks[i], "chain": ccs[i]})})
    out.append({"xkey": hdscen.root_xkey({"k": ks[-1], "chain": ccs[-1], "testnet": True}), "testnet": True})
    out.append({"xkey": hdscen.root_xkey({"k": ks[2], "chain": ccs[3], "depth": 3, "index": H + 5, "pfp": "01020304"}), "via": "wallet"})
    # masters imported under the OTHER SLIP-132 prefixes (the BIP85 outputs do not depend on the prefix of the master)
    nd = hdscen.ref_root({"k": ks[3], "chain": ccs[2]})
    out.append({"xkey": hd.xprv(nd, hd.version_for("prv", False, 84))})
    out.append({"xkey": hd.xprv(nd, hd.version_for("prv", True, 49)), "testnet": True, "via": "wallet"})
    if ctx.thorough:
        out.append({"xkey": hd.xprv(nd, hd.version_for("prv", False, 49)), "via": "wallet"})
        out.append({"xkey": hd.xprv(nd, hd.version_for("prv", True, 84)), "testnet": True})
    return out


def leading_zero_index(master, app_path, start=2):
    """smallest index >= start whose fully hardened BIP85 path key has a leading 0x00 byte (found with the reference)"""
    _, node = hd.parse_xkey(master["xkey"])
    base = hd.derive(node, [H + p for p in [hd.BIP85_ROOT] + app_path])
    i = start
    while True:
        if hd.ckd_priv(base, H + i).k < 2**248:
            return i
        i += 1


def run(ctx):
    ms = masters(ctx)
    r = ctx.rng("idx")
    idxs = [0, 1, H - 1, r.randrange(2, H - 1)]
    cases = [{"k": "sweep", "master": m, "index": i} for m in ms for i in idxs]
    # boundary class "derived key with a leading zero byte" (the HMAC input is that key): one index per application family
    lz = []
    for m in ms[:2]:
        lz.append({"k": "one", "master": m, "app": "wif", "param": None, "index": leading_zero_index(m, [2])})
        lz.append({"k": "one", "master": m, "app": "xprv", "param": None, "index": leading_zero_index(m, [32])})
        lz.append({"k": "one", "master": m, "app": "hex", "param": 32, "index": leading_zero_index(m, [128169, 32])})
        lz.append({"k": "one", "master": m, "app": "pwd", "param": 21, "index": leading_zero_index(m, [707764, 21])})
        lz.append({"k": "one", "master": m, "app": "mnemonic", "param": 12, "index": leading_zero_index(m, [39, 0, 12])})
    ctx.product("leading-zero-path-keys", lz, execute)
    # corner classes of the computed intermediates (vf/corners.py): the private key at the end of the hardened path (= the HMAC
    # message) and the 64 entropy bytes - every byte position 00 / ff, every first / last byte value, per application family
    from .. import corners
    from ..core import HarnessError
    fams = [("wif", None, [2]), ("hex", 32, [128169, 32]), ("mnemonic", 12, [39, 0, 12])] + ([("xprv", None, [32]), ("pwd", 21, [707764, 21])] if ctx.thorough else [])
    cm = ms[1]
    _, cnode = hd.parse_xkey(cm["xkey"])
    ccases = []
    for app, param, ap in fams:
        base = hd.derive(cnode, [H + p_ for p_ in [hd.BIP85_ROOT] + ap])

        def cands():
            i = (ctx.seed * 100000) % (2**31 - 10**6) + 2
            while True:
                kid = hd.ckd_priv(base, H + i)
                yield i, {"pathkey": kid.k.to_bytes(32, "big"), "entropy": hd._prf(b"bip-entropy-from-k", kid.k.to_bytes(32, "big"), None)}
                i += 1
        kept, st = corners.cover(cands(), {"pathkey": 32, "entropy": 64}, 60000, pairs=ctx.thorough)
        ctx.extra["intermediate_corner_classes_" + app] = st
        if st["covered"] != st["classes"]:
            raise HarnessError("corner cover incomplete: %r" % (st,))
        ccases += [{"k": "one", "master": cm, "app": app, "param": param, "index": i} for i, _ in kept]
    ctx.product("intermediate-corners", ccases, execute, chunk=8)
    agg = ctx.product("all-parameters", cases, execute, chunk=1)
    # distinctness across indexes within one master
    per_master = {}
    for x in agg["x"]:
        pass
    bad = []
    for m in ms[:3]:
        for app, params in (("mnemonic", (0, 11, 13, 25, -12, H + 12, 16)), ("hex", (-16, 0, 15, 65, H + 16)), ("pwd", (19, 87, 0, -20, H + 20))):
            for p in params:
                bad.append({"k": "one", "master": m, "app": app, "param": p, "index": 0})
        for app, p in (("mnemonic", 12), ("hex", 32), ("pwd", 21), ("wif", None), ("xprv", None)):
            for i in (-1, -2, -H, -H - 1, H, H + 1, 2**32 - 1, 2**32, 2**32 + H):
                bad.append({"k": "one", "master": m, "app": app, "param": p, "index": i})
    ctx.product("out-of-range", bad, execute)
    from ..bfs import bfs
    bfs(ctx, "cross-master-request-histories", CrossMasterHistories(), 3 if ctx.thorough else 2)
    from ..bfs import long_histories
    long_histories(ctx, "cross-master-request-histories+long", CrossMasterHistories(), rotations=6 if ctx.thorough else 3, rounds=1)
    from ..bfs import eviction_probe
    eviction_probe(ctx, "one-object-request-revisits", OneObjectHistories(), _ev_req,
                   sizes=(1, 2, 3, 4, 5, 8, 9, 16, 17, 32, 33) + ((64, 65, 128) if ctx.thorough else ()))
    return {"masters": len(ms), "indexes": idxs}
