"""C04 - mnemonic sentences encode their entropy losslessly with a valid checksum; other sizes are rejected."""
import hashlib

from ..core import attempt, V, R
from ..ref import hd

LEVEL = "exploration"
P = "C04"
SIZES = (16, 20, 24, 28, 32)
RULE = ("per entropy size: all-zero, all-one, every single-bit value and its complement, 1..4 leading zero bytes, alternating "
        "patterns, values whose SHA-256 starts with >=8 / >=16 zero bits (found by deterministic search), seeded generic values; "
        "every word slot x every 11-bit word value (256-bit size; thorough: all five sizes); every illegal byte length 0..64 in "
        "lower and upper case hex; whitespace-bearing hex of the legal sizes; the word list entry by entry. Oracle: words decoded "
        "through the pinned official list give entropy || SHA-256 prefix; illegal sizes raise. non-trivial = sentence decoded and "
        "compared bit for bit, or refusal observed; distinct by construction"
        "; the last word taking every value 0..2047 for every size; the generating entry points under a scripted OS source with cornered drawn bytes (leading zero bytes, every first-byte value)")


def _bip39():
    from btc_hd_wallet import bip39
    return bip39


def chk_encode(ent, via):
    """-> (outcome, viols)"""
    hexs = ent.hex()
    if via == "wallet":
        from btc_hd_wallet.base_wallet import BaseWallet
        st, s = attempt(lambda: BaseWallet.from_entropy_hex(hexs).mnemonic)
    elif via == "upper":
        st, s = attempt(_bip39().mnemonic_from_entropy, hexs.upper())
    else:
        st, s = attempt(_bip39().mnemonic_from_entropy, hexs)
    seam = "from_entropy_hex" if via == "wallet" else "mnemonic_from_entropy"
    cls = "ent=%d" % (len(ent) * 8)
    if st != "ok":
        return "violation", [V("%s:%s:%s:refused" % (P, seam, cls), "legal entropy %s refused: %s" % (hexs, s))]
    exp = hd.mnemonic_from_entropy(ent)
    if s != exp:
        words = s.split(" ") if isinstance(s, str) else []
        detail = "word-count" if len(words) != len(exp.split(" ")) else "wrong-words"
        return "violation", [V("%s:%s:%s:%s" % (P, seam, cls, detail), "sentence for entropy " + hexs, s, exp)]
    dec = hd.mnemonic_decode(s)
    assert dec == (ent, True)
    return "sentence-ok-%d" % len(s.split(" ")), []


def chk_reject(hexs, nbytes):
    st, s = attempt(_bip39().mnemonic_from_entropy, hexs)
    if st == "ok":
        return "violation", [V("%s:mnemonic_from_entropy:size-not-in-{16,20,24,28,32}:sentence" % P,
                               "entropy of %d bytes (%r...) produced a %d-word sentence" % (nbytes, hexs[:20], len(str(s).split(" "))),
                               str(s)[:120], "an exception")]
    from btc_hd_wallet.base_wallet import BaseWallet
    st, s = attempt(lambda: BaseWallet.from_entropy_hex(hexs).mnemonic)
    if st == "ok":
        return "violation", [V("%s:from_entropy_hex:size-not-in-{16,20,24,28,32}:sentence" % P,
                               "wallet built from entropy of %d bytes" % nbytes, str(s)[:120], "an exception")]
    return "refused-illegal-size", []


def chk_ws(hexs):
    """whitespace-bearing hex that denotes a legal size: raise, or the right sentence for the denoted bytes"""
    try:
        ent = bytes.fromhex(hexs)
    except ValueError:
        ent = None
    st, s = attempt(_bip39().mnemonic_from_entropy, hexs)
    if st != "ok":
        return "ws-refused", []
    if ent is not None and len(ent) in SIZES and s == hd.mnemonic_from_entropy(ent):
        return "ws-correct-sentence", []
    return "violation", [V("%s:mnemonic_from_entropy:whitespace-hex:wrong-sentence" % P,
                           "hex with whitespace %r gave a sentence that is not the encoding of the bytes it denotes" % hexs[:40],
                           str(s)[:120], hd.mnemonic_from_entropy(ent) if ent is not None and len(ent) in SIZES else "an exception")]


def chk_drawn(words, answer_hex, entry):
    """the generating entry points (entropy drawn from the OS source, here scripted): whatever bytes are drawn, the sentence
    has the requested number of words, decodes through the official list and carries a VALID checksum"""
    from .c08 import one_creation
    r = one_creation(entry, words, bytes.fromhex(answer_hex))
    if r["st"] != "ok":
        return "violation", [V("%s:%s:drawn-entropy:raised" % (P, entry), "%d words with OS answer %s...: %s" % (words, answer_hex[:16], r["mnemonic"]))]
    m = r["mnemonic"]
    try:
        ent, ok = hd.mnemonic_decode(m)
    except ValueError as e:
        return "violation", [V("%s:%s:drawn-entropy:undecodable" % (P, entry), "sentence %r: %s" % (m, e))]
    if len(m.split(" ")) != words or not ok or len(ent) * 8 != words * 32 // 3:
        return "violation", [V("%s:%s:drawn-entropy:%s" % (P, entry, "bad-checksum" if not ok else "wrong-length"),
                               "%d words requested, OS answer %s...: sentence %r (%d words, checksum %s)" % (words, answer_hex[:16], m, len(m.split(" ")), "valid" if ok else "INVALID"))]
    if hd.mnemonic_from_entropy(ent) != m:
        return "violation", [V("%s:%s:drawn-entropy:not-canonical" % (P, entry), "sentence %r is not the encoding of its own entropy" % m)]
    return "drawn-sentence-valid-%d" % words, []


def slot_entropy(size, slot, value):
    """entropy whose 11-bit field `slot` holds `value` (last slot: only its entropy bits), zero elsewhere"""
    ent_bits = size * 8
    cs = ent_bits // 32
    total = ent_bits + cs
    lo = total - (slot + 1) * 11           # bit offset of the field from the right in ent||cs
    if lo >= cs:
        v = value << (lo - cs)
    else:
        v = value >> (cs - lo)               # last slot: drop the checksum part of the field
    return (v & ((1 << ent_bits) - 1)).to_bytes(size, "big")


_PURE = ["00" * 16, "00" * 15 + "01", "00" * 20, "ff" * 16, "ff" * 32, "00" * 32, "7f" * 16, "7f" * 24]


def _ev_judge(i):
    import hashlib as _h
    ent = _h.sha256(b"c04-ev-%d" % i).digest()[:(16, 20, 24, 28, 32)[i % 5]]
    return chk_encode(ent, "fn")[1]


def _pure_judge(i):
    return chk_encode(bytes.fromhex(_PURE[i]), "fn")[1] + chk_encode(bytes.fromhex(_PURE[i]), "wallet")[1]


def execute(case):
    k = case.get("k")
    if "hist" in case:
        from ..core import isolated
        from ..bfs import PureCalls
        r = isolated(PureCalls(10**6, _ev_judge if case.get("layer") == "encoder-revisits" else _pure_judge, P).run, case["hist"])
        for v in r["viols"]:
            v["case"] = case
        return R(r["label"], viols=r["viols"])
    outcomes, viols, n = {}, [], 0

    def acc(res, single):
        nonlocal n
        n += 1
        o, vs = res
        outcomes[o] = outcomes.get(o, 0) + 1
        for v in vs:
            v["case"] = single
            viols.append(v)

    if k == "enc":
        acc(chk_encode(bytes.fromhex(case["ent"]), case.get("via", "fn")), case)
    elif k == "slot":
        size, slot = case["size"], case["slot"]
        cs = size * 8 // 32
        nwords = (size * 8 + cs) // 11
        rng = 2048 if slot < nwords - 1 else 2 ** (11 - cs)
        for v in range(rng):
            ent = slot_entropy(size, slot, v)
            res = chk_encode(ent, "fn")
            if not res[1]:
                st, s = attempt(_bip39().mnemonic_from_entropy, ent.hex())
                w = s.split(" ")[slot]
                if slot < nwords - 1 and w != hd.WORDS[v]:
                    res = ("violation", [V("%s:word_list:slot-value:wrong-word" % P, "slot %d value %d" % (slot, v), w, hd.WORDS[v])])
            acc(res, {"k": "enc", "ent": ent.hex()})
    elif k == "drawn":
        acc(chk_drawn(case["words"], case["answer"], case["entry"]), case)
    elif k == "rej":
        acc(chk_reject(case["hex"], case["n"]), case)
    elif k == "ws":
        acc(chk_ws(case["hex"]), case)
    elif k == "wordlist":
        from btc_hd_wallet.bip39_wordlist import word_list
        vs = []
        if list(word_list) != hd.WORDS:
            diff = [i for i in range(min(len(word_list), 2048)) if word_list[i] != hd.WORDS[i]][:5]
            vs.append(V("%s:word_list:official-order:differs" % P, "embedded word list differs from the official English list at indexes %r (len %d)" % (
                diff, len(word_list))))
        h = hashlib.sha256(("\n".join(word_list) + "\n").encode()).hexdigest()
        if h != hd.WORDLIST_SHA256 and not vs:
            vs.append(V("%s:word_list:official-order:hash" % P, "sha256 of list", h, hd.WORDLIST_SHA256))
        acc(("violation" if vs else "wordlist-ok", vs), case)
    else:
        raise ValueError(k)
    return R(outcomes, viols=viols, n=n)


def replay(case):
    return execute(case)["v"]


def sha_zero_search(size, zbits, start):
    i = start
    while True:
        e = i.to_bytes(size, "big")
        if int.from_bytes(hashlib.sha256(e).digest(), "big") >> (256 - zbits) == 0:
            return e
        i += 1


def run(ctx):
    r = ctx.rng("ent")
    cases = [{"k": "wordlist"}]
    for size in SIZES:
        bits = size * 8
        vals = [b"\x00" * size, b"\xff" * size, b"\xaa" * size, b"\x55" * size, b"\x00\xff" * (size // 2), b"\x7f" * size, b"\x80" * size]
        for b in range(bits):
            one = (1 << b).to_bytes(size, "big")
            vals.append(one)
            vals.append(bytes(x ^ 0xff for x in one))
        for z in (1, 2, 3, 4, 8):
            vals.append(b"\x00" * z + bytes(r.randrange(1, 256) for _ in range(size - z)))
        vals.append(sha_zero_search(size, 8, ctx.seed * 100000))
        vals.append(sha_zero_search(size, 16 if ctx.thorough else 12, ctx.seed * 100000 + 7))
        vals += [bytes(r.randrange(256) for _ in range(size)) for _ in range(24 if ctx.thorough else 8)]
        for v in vals:
            cases.append({"k": "enc", "ent": v.hex()})
        for v in vals[:8] + vals[-4:]:
            cases.append({"k": "enc", "ent": v.hex(), "via": "wallet"})
            cases.append({"k": "enc", "ent": v.hex(), "via": "upper"})
    ctx.product("encode", cases, execute)
    # the LAST word mixes entropy bits with the computed checksum: for every size an entropy for EVERY value 0..2047 of the last
    # word (hence every checksum value with every tail), found by deterministic search with the reference
    cases = []
    for size in SIZES:
        need, i = set(range(2048)), 0
        cs = size * 8 // 32
        while need:
            ent = hashlib.sha256(b"C04-last-%d-%d-%d" % (ctx.seed, size, i)).digest()[:size]
            i += 1
            last = ((ent[-2] << 8 | ent[-1]) << cs | hashlib.sha256(ent).digest()[0] >> (8 - cs)) & 2047
            if last in need:
                need.discard(last)
                cases.append({"k": "enc", "ent": ent.hex()})
    ctx.product("last-word-every-value", cases, execute, chunk=64)
    # the GENERATING entry points with the drawn bytes on their corners (leading zero bytes, all-zero, all-one, top bit only, every
    # value of the first byte): the sentence must still be a valid encoding
    cases = []
    for words, size in ((12, 16), (15, 20), (18, 24), (21, 28), (24, 32)):
        tails = hashlib.sha256(b"C04-drawn-%d-%d" % (ctx.seed, words)).digest() * 2
        answers = [b"\x00" * 64, b"\xff" * 64, b"\x80" + b"\x00" * 63, b"\x00" * 63 + b"\x01"] + [b"\x00" * z + tails[:64 - z] for z in (1, 2, 3, 4, 8)]
        answers += [bytes([b]) + tails[:63] for b in (range(256) if words in (12, 24) or ctx.thorough else (0, 1, 0x7f, 0x80, 0xff))]
        for entry in ("mnemonic_from_entropy_bits", "BaseWallet.new_wallet"):
            for a in (answers if entry == "mnemonic_from_entropy_bits" else answers[:9]):
                cases.append({"k": "drawn", "words": words, "answer": a.hex(), "entry": entry})
    ctx.product("drawn-entropy-corners", cases, execute, chunk=16)
    slot_sizes = SIZES if ctx.thorough else (32, 16)
    cases = [{"k": "slot", "size": s, "slot": w} for s in slot_sizes for w in range((s * 8 + s * 8 // 32) // 11)]
    ctx.product("word-slot-x-word-value", cases, execute, chunk=2)
    cases = []
    for n in range(0, 65):
        if n in SIZES:
            continue
        body = bytes((i * 29 + 3) % 256 for i in range(n))
        for variant in (body, b"\x00" * n, b"\xff" * n):
            cases.append({"k": "rej", "hex": variant.hex(), "n": n})
            cases.append({"k": "rej", "hex": variant.hex().upper(), "n": n})
    # an illegal number of bytes written with blanks so that the CHARACTER count equals that of a legal size
    for chars in (32, 40, 48, 56, 64):
        for short in (1, 2, 3, 4):
            nb = chars // 2 - short
            if nb in SIZES:
                continue
            h = bytes((i * 29 + 3) % 256 for i in range(nb)).hex()
            for where in ("inner", "spread", "ends"):
                blanks = 2 * short
                if where == "inner":
                    t = h[:6] + " " * blanks + h[6:]
                elif where == "spread":
                    t = h
                    for j in range(blanks):
                        cut = 2 + 4 * j
                        t = t[:cut + j] + " " + t[cut + j:]
                else:
                    t = " " * (blanks // 2) + h + " " * (blanks - blanks // 2)
                cases.append({"k": "rej", "hex": t, "n": nb})
    ctx.product("illegal-sizes", cases, execute)
    cases = []
    for size in SIZES:
        body = bytes(r.randrange(256) for _ in range(size))
        h = body.hex()
        pairs = [h[i:i + 2] for i in range(0, len(h), 2)]
        for ws in (" ".join(pairs), " " + h, h + " ", h + "\n", "\t" + h, h[:8] + " " + h[8:], h[:7] + " " + h[7:], "  ".join(pairs),
                   " ".join(pairs) + " ", h + "  ", " ".join(["00"] * size), (" ".join(pairs))[:-1]):
            cases.append({"k": "ws", "hex": ws})
    ctx.product("whitespace-hex", cases, execute)
    from ..bfs import bfs, long_histories, PureCalls
    model = PureCalls(len(_PURE), _pure_judge, P)
    bfs(ctx, "encoder-call-histories", model, 3 if ctx.thorough else 2)
    long_histories(ctx, "encoder-call-histories+long", model, rotations=8 if ctx.thorough else 3, rounds=2)
    from ..bfs import eviction_probe
    eviction_probe(ctx, "encoder-revisits", PureCalls(10**6, _ev_judge, P), lambda i: i)
    return {}
