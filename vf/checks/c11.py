"""C11 - segwit addresses follow BIP173/BIP350 and detect up to four character errors (engine E5: syndromes)."""
import itertools

from ..core import attempt, V, R, HarnessError
from ..ref import enc

LEVEL = "exploration"
P = "C11"
CS = enc.CHARSET
D_CROSS = enc.BECH32_CONST ^ enc.BECH32M_CONST
LMAX = 71          # data symbols (version + program + checksum) of the longest address the library can emit (v1..16, 40 bytes)
RULE = ("A: ALL (witness version, program length) in 0..17 x 0..42 x 6 prefixes x 3 program patterns: legal <=> encodes to the reference "
        "string and decodes back, illegal <=> None. B: on every legal grid point every single-character case flip, all-upper, other "
        "prefix, other checksum constant, non-zero padding, over-long padding, over-90 length, foreign characters, moved/missing "
        "separator: all refused. C (complete for weight<=4): the syndrome S(e)=polymod(base^e)^polymod(base) of EVERY error pattern of "
        "weight<=2 over the 71 data positions (2,201 + 2,388,085 patterns) is obtained from the real bech32_polymod (weight 1 always by "
        "direct calls, weight 2 by XOR of measured weight-1 syndromes in the quick tier and by direct calls in the thorough tier); no "
        "undetected error of weight<=4 under one constant <=> all these syndromes are pairwise distinct and non-zero; cross-constant: "
        "no (a in W<=1, b in W<=2) with S(a)^S(b)=D, and EVERY (a,b in W2) with S(a)^S(b)=D is listed and replayed end to end on real "
        "addresses of every shape it fits. D: all single substitutions (thorough: all double substitutions) on real addresses of every "
        "emitted shape through decode() and bech32_decode_address(). non-trivial = answer compared with the reference / syndrome "
        "entered into the injectivity table; distinct by construction"
        "; every constructed fault string also goes through helper.bech32_decode_address")
# incl. every printable non-upper-case ASCII character that BIP173 allows in a prefix
HRPS = ["bc", "tb", "bcrt", "a", "x1y", "h" * 83, "my_net", "!\"#$%&'()*+,-./", "0123456789:;<=>?@", "[\\]^_`{|}~", "z9~"]


def B():
    from btc_hd_wallet import bech32
    return bech32


def prog(plen, pat, salt=0):
    return bytes({"00": 0, "ff": 255}.get(pat, None) if pat in ("00", "ff") else (i * 37 + plen * 11 + salt + 1) % 256 for i in range(plen))


# ---------------------------------------------------------------------------------------------- A / B
def chk_grid(hrp, ver, plen, pat, salt):
    b = B()
    pr = prog(plen, pat, salt)
    legal = enc.segwit_legal(ver, plen, hrp)
    st, s = attempt(b.encode, hrp, ver, list(pr))
    viols = []
    cls = "v%d" % ver if ver in (0, 1, 16, 17) else "v2-15"
    if st != "ok":
        if legal:
            return "violation", [V("%s:encode:legal:%s:raised" % (P, cls), "encode(%r, %d, %d bytes) raised %s" % (hrp[:8], ver, plen, s))]
        return "illegal-refused(raised)", []
    if not legal:
        if s is not None:
            return "violation", [V("%s:encode:illegal:%s:len=%d:address" % (P, cls, plen), "encode(%r, v%d, %d bytes) returned %r for an illegal combination" % (hrp[:8], ver, plen, s))]
        return "illegal-refused", []
    exp = enc.segwit_encode(hrp, ver, pr)
    if s != exp:
        return "violation", [V("%s:encode:legal:%s:wrong-string" % (P, cls), "encode(%r, v%d, %d bytes)" % (hrp[:8], ver, plen), s, exp)]
    st, d = attempt(b.decode, hrp, s)
    if st != "ok" or d[0] != ver or bytes(d[1] or b"") != pr:
        return "violation", [V("%s:decode:legal:%s:roundtrip" % (P, cls), "decode(encode(v%d, %d bytes))" % (ver, plen), str(d)[:80], (ver, pr.hex()))]
    return "legal-roundtrip", viols


def refused(hrp, s):
    """decode must yield (None, None) (an exception also counts as refusal)"""
    st, d = attempt(B().decode, hrp, s)
    return st != "ok" or d == (None, None) or d[0] is None


def chk_rejections(hrp, ver, plen, salt, case_blocks=False):
    """-> (n, viols). All strings built by the reference encoder."""
    pr = prog(plen, "mix", salt)
    good = enc.segwit_encode(hrp, ver, pr)
    viols, n = [], 0

    def must_refuse(s, cls, h=hrp):
        nonlocal n
        n += 1
        ref = enc.segwit_decode(h, s)
        if ref is not None:
            # the construction happened to yield another VALID address (e.g. an extra zero symbol that completes a byte):
            # then the implementation must decode it to exactly what the reference decodes
            st, d = attempt(B().decode, h, s)
            if st != "ok" or d[0] != ref[0] or bytes(d[1] or b"") != ref[1]:
                viols.append(V("%s:decode:valid-variant:differs" % P, "decode(%r, %r) -> %r, reference %r" % (h, s, d, (ref[0], ref[1].hex())),
                               case={"k": "one_valid", "hrp": h, "s": s}))
            return
        if not refused(h, s):
            viols.append(V("%s:decode:%s:accepted" % (P, cls), "decode(%r, %r) accepted (v%d, %d-byte program, fault: %s)" % (h, s, ver, plen, cls),
                           case={"k": "one_rej", "hrp": h, "s": s, "cls": cls}))
        # the same string through the address WRAPPER (it takes the prefix from the string itself): refused there too, unless
        # the string is a valid address of the prefix it carries
        if h == hrp and len(s) >= 2 and enc.segwit_decode(s[:2].lower(), s) is None and enc.segwit_decode(s[:2], s) is None:
            from btc_hd_wallet import helper
            st, out = attempt(helper.bech32_decode_address, s)
            if st == "ok" and out is not None:
                viols.append(V("%s:bech32_decode_address:%s:accepted" % (P, cls.split(":")[0]), "bech32_decode_address(%r) returned %r (fault: %s)" % (s, bytes(out).hex()[:20], cls),
                               case={"k": "one_helper", "s": s, "key": "%s:bech32_decode_address:%s:accepted" % (P, cls.split(":")[0])}))

    b = B()
    n += 1
    st, d = attempt(b.decode, hrp, good.upper())
    if st != "ok" or d[0] != ver or bytes(d[1]) != pr:
        viols.append(V(P + ":decode:all-uppercase:refused", "all-upper-case form of %s not decoded to the same program" % good,
                       case={"k": "one_upper", "hrp": hrp, "s": good.upper(), "ver": ver, "prog": pr.hex()}))
    for i, c in enumerate(good):
        if c.isalpha():
            must_refuse(good[:i] + c.upper() + good[i + 1:], "mixed-case")
    # partial case changes: prefix only, data only, prefix+separator+first symbol, checksum only (single flips are above)
    hl = len(hrp)
    for a, bnd, nm in ((0, hl, "prefix-upper"), (hl + 1, len(good), "data-upper"), (0, hl + 2, "prefix+version-upper"), (len(good) - 6, len(good), "checksum-upper")):
        t = good[:a] + good[a:bnd].upper() + good[bnd:]
        if t != good and t != good.upper():
            must_refuse(t, "mixed-case:" + nm)
        t2 = good.upper()[:a] + good[a:bnd] + good.upper()[bnd:]
        if t2 != good and t2 != good.upper():
            must_refuse(t2, "mixed-case:" + nm + "-inverse")
    if case_blocks:
        for a in range(len(good)):
            for bnd in range(a + 1, len(good) + 1):
                t = good[:a] + good[a:bnd].upper() + good[bnd:]
                if t != good and t != good.upper():
                    must_refuse(t, "mixed-case:block")
    must_refuse(good, "other-prefix", "tb" if hrp == "bc" else "bc")
    # an address whose REAL prefix merely starts with / contains the expected one
    for other in (hrp + "1x", hrp + "1", hrp + "c", "x" + hrp, hrp[:-1], hrp + "1" + hrp):
        if other and other != hrp:
            must_refuse(enc.segwit_encode(other, ver, pr), "prefix-extension", hrp)
    other = enc.BECH32M_CONST if ver == 0 else enc.BECH32_CONST
    must_refuse(enc.segwit_encode(hrp, ver, pr, const=other), "wrong-checksum-constant")
    d5 = enc.to5(pr)
    padbits = (5 - (plen * 8) % 5) % 5
    const = enc.BECH32_CONST if ver == 0 else enc.BECH32M_CONST
    if padbits:
        for bit in range(padbits):
            bad = d5[:-1] + [d5[-1] | (1 << bit)]
            must_refuse(enc.bech32_raw_encode(hrp, [ver] + bad, const), "nonzero-padding")
    must_refuse(enc.bech32_raw_encode(hrp, [ver] + d5 + [0], const), "overlong-padding")
    if padbits == 0 or True:
        must_refuse(enc.bech32_raw_encode(hrp, [ver] + d5 + [0, 0], const), "overlong-padding")
    long_hrp = "b" * (91 - len(good) + len(hrp))
    must_refuse(enc.segwit_encode(long_hrp, ver, pr), "length>90", long_hrp)
    for pos in (len(hrp) + 1, len(good) - 1, len(good) // 2):
        for ch in "bio1 B!é\x7f":
            must_refuse(good[:pos] + ch + good[pos + 1:], "foreign-character")
    # characters OUTSIDE ASCII that case-mapping or compatibility normalisation turns into an ASCII letter or digit (KELVIN SIGN
    # lower-cases to k, LONG S folds to s, full-width forms, mathematical alphanumerics): each is a one-character substitution
    for form in (good, good.upper()):
        for pos, c in enumerate(form):
            alts = [chr(0xFF00 + ord(c) - 0x20)] if 0x21 <= ord(c) <= 0x7E else []
            if c in "kK":
                alts.append("\u212a")
            if c in "sS":
                alts.append("\u017f")
            if c.isalpha() and c.islower():
                alts.append(chr(0x1D41A + ord(c) - ord("a")))       # MATHEMATICAL BOLD SMALL
            if c.isdigit():
                alts.append(chr(0x0660 + int(c)))                   # ARABIC-INDIC DIGIT
            if pos in (0, len(hrp) + 1, len(form) // 2, len(form) - 1) or c in "kKsS":
                for a_ in alts:
                    must_refuse(form[:pos] + a_ + form[pos + 1:], "foreign-character")
    must_refuse(good.replace("1", "", 1) if good.count("1") == 1 else good[:len(hrp)] + good[len(hrp) + 1:], "separator-missing")
    must_refuse("1" + good[len(hrp) + 1:], "empty-prefix", "")
    must_refuse(good[:-1], "truncated")
    must_refuse(good + "q", "extended")
    must_refuse(good[:len(hrp)] + "1" + good[len(hrp):], "separator-doubled")
    return n, viols


# ---------------------------------------------------------------------------------------------- C (engine E5)
def base_values(L, salt=0):
    hrpv = enc.hrp_expand("bc")
    return hrpv, [((i * 7 + salt) % 32) for i in range(L)]


def single_syndromes(L, salt):
    """S1[j][v] for symbol errors at distance j from the end, value v in 1..31 - by direct calls of the real polymod,
    on two different bases (must agree: the syndrome does not depend on the base)"""
    pm = B().bech32_polymod
    out = None
    for s in (salt, salt + 13):
        hrpv, data = base_values(L, s)
        p0 = pm(hrpv + data)
        tab = [[0] * 32 for _ in range(L)]
        for j in range(L):
            idx = L - 1 - j
            for v in range(1, 32):
                d = list(data)
                d[idx] ^= v
                tab[j][v] = pm(hrpv + d) ^ p0
        if out is not None and out != tab:
            raise _NotAffine("single-symbol syndromes depend on the base string")
        out = tab
    return out


class _NotAffine(Exception):
    pass


def direct_w2_block(case):
    """thorough: all weight-2 syndromes with first position j1 by direct polymod calls; returns list for the parent"""
    pm = B().bech32_polymod
    L, j1, salt = case["L"], case["j1"], case["salt"]
    hrpv, data = base_values(L, salt)
    p0 = pm(hrpv + data)
    out = []
    i1 = L - 1 - j1
    for j2 in range(j1 + 1, L):
        i2 = L - 1 - j2
        for v1 in range(1, 32):
            for v2 in range(1, 32):
                d = list(data)
                d[i1] ^= v1
                d[i2] ^= v2
                out.append(pm(hrpv + d) ^ p0)
    return R("direct-weight2", n=len(out), extra={"j1": j1, "syn": out})


def shapes():
    """(version, program length) of every address shape the library can emit through the wallet API and encode()"""
    return [(0, 20), (0, 32), (1, 32), (16, 2), (16, 40), (1, 40), (2, 20)]


def apply_pattern(addr, hrp, pattern):
    """pattern = [(j, v)...] on data symbols counted from the end"""
    body = list(addr[len(hrp) + 1:])
    for j, v in pattern:
        i = len(body) - 1 - j
        body[i] = CS[CS.index(body[i]) ^ v]
    return addr[:len(hrp) + 1] + "".join(body)


def replay_pattern(pattern, kind):
    """apply a zero-syndrome (kind='same') or D-syndrome (kind='cross') pattern to real addresses of every shape it fits"""
    viols, n, allowed = [], 0, 0
    maxj = max(j for j, _ in pattern)
    for ver, plen in shapes():
        for hrp in ("bc", "tb"):
            pr = prog(plen, "mix", 5)
            good = enc.segwit_encode(hrp, ver, pr)     # reference encoder: a VALID address (layer A compares encode() with it)
            L = len(good) - len(hrp) - 1
            if maxj >= L:
                continue
            bad = apply_pattern(good, hrp, pattern)
            n += 1
            st, d = attempt(B().decode, hrp, bad)
            if st == "ok" and d[0] is not None:
                w = len(pattern)
                newver = d[0]
                if kind == "cross" and w == 4 and (ver == 0) != (newver == 0):
                    allowed += 1
                    continue
                viols.append(V("%s:error-detection:weight=%d:%s:accepted" % (P, w, "same-constant" if kind == "same" else "cross-constant"),
                               "%d substituted characters turn %s into %s, which decode() accepts as v%d" % (w, good, bad, newver),
                               case={"k": "pattern", "pattern": [list(p) for p in pattern], "kind": kind}))
    return n, allowed, viols


def pattern_of(idx, L):
    """inverse of the enumeration order used for W2: returns ((j1,v1),(j2,v2))"""
    raise NotImplementedError


# ---------------------------------------------------------------------------------------------- D
def chk_substitutions(hrp, ver, plen, weight, first):
    """all substitution patterns of the given weight whose lowest position is `first`, end to end"""
    b = B()
    pr = prog(plen, "mix", 9)
    good = enc.segwit_encode(hrp, ver, pr)
    body_start = len(hrp) + 1
    L = len(good) - body_start
    viols, n = [], 0
    i1 = body_start + first
    pos_sets = [(i1,)] if weight == 1 else [(i1, i2) for i2 in range(i1 + 1, len(good))]
    for ps in pos_sets:
        for vals in itertools.product(range(1, 32), repeat=weight):
            s = list(good)
            for pp, v in zip(ps, vals):
                s[pp] = CS[CS.index(s[pp]) ^ v]
            s = "".join(s)
            n += 1
            if not refused(hrp, s):
                viols.append(V("%s:decode:substitution-weight=%d:accepted" % (P, weight), "%s -> %s accepted" % (good, s),
                               case={"k": "one_rej", "hrp": hrp, "s": s, "cls": "substitution-weight=%d" % weight}))
            if weight == 1 and hrp in ("bc", "tb"):
                from btc_hd_wallet import helper
                st, out = attempt(helper.bech32_decode_address, s)
                if st == "ok":
                    viols.append(V(P + ":bech32_decode_address:substitution-weight=1:accepted", "%s -> %s accepted by bech32_decode_address" % (good, s),
                                   case={"k": "one_helper", "s": s}))
    return n, viols


def chk_hrp_substitutions(ver, plen):
    """substitutions in the human-readable part as seen by bech32_decode_address (prefix taken from the string itself)"""
    from btc_hd_wallet import helper
    viols, n = [], 0
    for hrp in ("bc", "tb"):
        good = enc.segwit_encode(hrp, ver, prog(plen, "mix", 3))
        st, out = attempt(helper.bech32_decode_address, good)
        n += 1
        if st != "ok" or out != prog(plen, "mix", 3):
            viols.append(V(P + ":bech32_decode_address:valid:refused", "valid %s -> %r" % (good, out), case={"k": "one_helper_ok", "s": good}))
        for i in range(2):
            for ch in "abcdefghijklmnopqrstuvwxyz0123456789":
                if ch == good[i]:
                    continue
                s = good[:i] + ch + good[i + 1:]
                n += 1
                st, out = attempt(helper.bech32_decode_address, s)
                if st == "ok":
                    viols.append(V(P + ":bech32_decode_address:prefix-substitution:accepted", "%s -> %s accepted" % (good, s), case={"k": "one_helper", "s": s}))
    return n, viols


def chk_helpers(witver, testnet, salt):
    """h160_to_p2wpkh_address / h256_to_p2wsh_address with an explicit witness version"""
    from btc_hd_wallet import helper
    viols, n = [], 0
    hrp = "tb" if testnet else "bc"
    for fname, plen in (("h160_to_p2wpkh_address", 20), ("h256_to_p2wsh_address", 32)):
        pr = prog(plen, "mix", salt)
        n += 1
        st, a = attempt(getattr(helper, fname), pr, testnet, witver)
        exp = enc.segwit_encode(hrp, witver, pr) if enc.segwit_legal(witver, plen, hrp) else None
        cls = "v%d" % witver if witver in (0, 1, 16, 17) else "v2-15"
        if exp is None:
            if st == "ok" and a is not None:
                viols.append(V("%s:%s:illegal:%s:address" % (P, fname, cls), "%s(witver=%d) returned %r" % (fname, witver, a)))
        elif st != "ok" or a != exp:
            viols.append(V("%s:%s:legal:%s:wrong-string" % (P, fname, cls), "%s(%s, testnet=%r, witver=%d)" % (fname, pr.hex()[:16], testnet, witver), a, exp))
        elif refused(hrp, a):
            viols.append(V("%s:%s:legal:%s:not-decodable" % (P, fname, cls), "decode() refuses the helper's own output %r" % a))
    return n, viols


def _ev_hrp(i):
    return "bc" if i == 0 else "tb" if i == 1 else "p" + "".join(CS[(i >> s) & 31] for s in (0, 5, 10)).rstrip("q") + "z"


def _ev_judge(i):
    h = _ev_hrp(i)
    return chk_grid(h, 1 if i % 2 else 0, 32 if i % 3 else 20, "mix", i)[1] + ([] if refused("tb" if h != "tb" else "bc", enc.segwit_encode(h, 0, prog(20, "mix", i))) else
                                                                               [V(P + ":decode:other-prefix:accepted", "address of prefix %r accepted for another prefix" % h)])


def execute(case):
    k = case.get("k")
    if "hist" in case:
        from ..core import isolated
        from ..bfs import PureCalls
        r = isolated(PureCalls(10**6, _ev_judge, P).run, case["hist"])
        for v in r["viols"]:
            v["case"] = case
        return R(r["label"], viols=r["viols"])
    if k == "helpers":
        n, vs = chk_helpers(case["witver"], case["testnet"], case.get("salt", 0))
        return R("violation" if vs else "helper-agrees", viols=vs, n=n)
    if k == "grid":
        o, vs = chk_grid(case["hrp"], case["ver"], case["plen"], case["pat"], case.get("salt", 0))
        return R(o, viols=vs)
    if k == "rej":
        n, vs = chk_rejections(case["hrp"], case["ver"], case["plen"], case.get("salt", 0), case.get("blocks", False))
        return R("violation" if vs else "all-faults-refused", viols=vs, n=n)
    if k == "one_rej":
        ok = refused(case["hrp"], case["s"]) or enc.segwit_decode(case["hrp"], case["s"]) is not None
        vs = [] if ok else [V("%s:decode:%s:accepted" % (P, case["cls"]), "decode(%r, %r) accepted" % (case["hrp"], case["s"]))]
        return R("refused" if ok else "violation", viols=vs)
    if k == "one_valid":
        ref = enc.segwit_decode(case["hrp"], case["s"])
        st, d = attempt(B().decode, case["hrp"], case["s"])
        ok = ref is not None and st == "ok" and d[0] == ref[0] and bytes(d[1] or b"") == ref[1]
        return R("valid-variant-ok" if ok else "violation", viols=[] if ok else [V("%s:decode:valid-variant:differs" % P, "decode(%r,%r)" % (case["hrp"], case["s"]))])
    if k == "one_upper":
        st, d = attempt(B().decode, case["hrp"], case["s"])
        ok = st == "ok" and d[0] == case["ver"] and bytes(d[1]).hex() == case["prog"]
        return R("upper-ok" if ok else "violation", viols=[] if ok else [V(P + ":decode:all-uppercase:refused", "upper-case %s" % case["s"])])
    if k in ("one_helper", "one_helper_ok"):
        from btc_hd_wallet import helper
        st, out = attempt(helper.bech32_decode_address, case["s"])
        if k == "one_helper":
            key = case.get("key") or P + (":bech32_decode_address:prefix-substitution:accepted" if case["s"][:2] not in ("bc", "tb") else ":bech32_decode_address:substitution-weight=1:accepted")
            return R("refused" if st != "ok" else "violation", viols=[] if st != "ok" else [V(key, "%s accepted" % case["s"])])
        return R("ok" if st == "ok" else "violation", viols=[] if st == "ok" else [V(P + ":bech32_decode_address:valid:refused", case["s"])])
    if k == "w2direct":
        return direct_w2_block(case)
    if k == "pattern":
        n, allowed, vs = replay_pattern([tuple(p) for p in case["pattern"]], case["kind"])
        return R({"pattern-refused": n - allowed - len(vs), "allowed-v0<->v!=0": allowed, "violation": len(vs)}, viols=vs, n=max(n, 1))
    if k == "subst":
        n, vs = chk_substitutions(case["hrp"], case["ver"], case["plen"], case["weight"], case["first"])
        return R("violation" if vs else "substitutions-refused", viols=vs, n=n)
    if k == "hrpsub":
        n, vs = chk_hrp_substitutions(case["ver"], case["plen"])
        return R("violation" if vs else "prefix-substitutions-refused", viols=vs, n=n)
    raise ValueError(k)


def replay(case):
    return execute(case)["v"]


# ---------------------------------------------------------------------------------------------- driver
def syndrome_engine(ctx):
    L = LMAX
    salt = ctx.seed % 17
    try:
        S1 = single_syndromes(L, salt)
        # shortened codes: a symbol's syndrome depends only on its distance from the end - re-measured at every emitted length
        for ver, plen in shapes():
            Ls = 1 + (plen * 8 + 4) // 5 + 6
            if Ls != L and single_syndromes(Ls, salt) != S1[:Ls]:
                raise _NotAffine("syndromes at length %d differ from the prefix of the length-%d table" % (Ls, L))
    except _NotAffine as e:
        ctx.violate("syndromes", V(P + ":bech32_polymod:structure:not-affine", "bech32_polymod is not an affine map of the symbol string: %s" % e,
                                   case={"k": "grid", "hrp": "bc", "ver": 1, "plen": 32, "pat": "mix"}))
        return {"positions": L, "aborted": "polymod not affine - syndrome enumeration impossible; see agreement layer"}
    direct_calls = 2 * L * 31 + sum(2 * (1 + (pl * 8 + 4) // 5 + 6) * 31 for _, pl in shapes())
    # weight-2 syndromes
    w2 = {}
    if ctx.thorough:
        agg = ctx.product("syndromes-weight2-direct", [{"k": "w2direct", "L": L, "j1": j1, "salt": salt} for j1 in range(L - 1)], execute, chunk=1, nsamples=1)
        for x in agg["x"]:
            w2[x["j1"]] = x["syn"]
        direct_calls += sum(len(v) for v in w2.values())
        # additivity is hereby an observed fact for every weight-2 pattern
        for j1 in range(L - 1):
            it = iter(w2[j1])
            for j2 in range(j1 + 1, L):
                for v1 in range(1, 32):
                    a = S1[j1][v1]
                    row = S1[j2]
                    for v2 in range(1, 32):
                        if next(it) != a ^ row[v2]:
                            ctx.violate("syndromes", V(P + ":bech32_polymod:structure:not-additive", "S(e1^e2) != S(e1)^S(e2) at positions %d,%d" % (j1, j2),
                                                       case={"k": "grid", "hrp": "bc", "ver": 1, "plen": 32, "pat": "mix"}))
                            return {"positions": L, "aborted": "not additive"}
    bm = bytearray(1 << 27)
    collisions = []

    def mark(s, pat):
        if s >= (1 << 30) or s < 0:
            collisions.append((s, pat))
            return
        i, bit = s >> 3, 1 << (s & 7)
        if bm[i] & bit:
            collisions.append((s, pat))
        bm[i] |= bit

    mark(0, ())
    n1 = n2 = 0
    for j in range(L):
        for v in range(1, 32):
            mark(S1[j][v], ((j, v),))
            n1 += 1
    for j1 in range(L - 1):
        r1 = S1[j1]
        for j2 in range(j1 + 1, L):
            r2 = S1[j2]
            for v1 in range(1, 32):
                a = r1[v1]
                for v2 in range(1, 32):
                    s = a ^ r2[v2]
                    i, bit = s >> 3, 1 << (s & 7)
                    if bm[i] & bit:
                        collisions.append((s, ((j1, v1), (j2, v2))))
                    bm[i] |= bit
                    n2 += 1
    ctx.note("syndromes-weight<=2", n1 + n2 + 1, n1 + n2, {"syndrome-entered": n1 + n2 + 1},
             sample={"pattern": [[3, 17], [40, 9]], "syndrome": S1[3][17] ^ S1[40][9]})

    def patterns_with(targets):
        """all patterns of weight<=2 whose syndrome is in `targets` (second pass)"""
        found = {}
        if 0 in targets:
            found.setdefault(0, []).append(())
        for j in range(L):
            for v in range(1, 32):
                if S1[j][v] in targets:
                    found.setdefault(S1[j][v], []).append(((j, v),))
        for j1 in range(L - 1):
            r1 = S1[j1]
            for j2 in range(j1 + 1, L):
                r2 = S1[j2]
                for v1 in range(1, 32):
                    a = r1[v1]
                    for v2 in range(1, 32):
                        s = a ^ r2[v2]
                        if s in targets:
                            found.setdefault(s, []).append(((j1, v1), (j2, v2)))
        return found

    def combine(a, b):
        d = {}
        for j, v in a + b:
            d[j] = d.get(j, 0) ^ v
        return tuple(sorted((j, v) for j, v in d.items() if v))

    same_patterns = set()
    if collisions:
        found = patterns_with({s for s, _ in collisions})
        for s, pats in found.items():
            for a, b in itertools.combinations(pats, 2):
                c = combine(a, b)
                if c:
                    same_patterns.add(c)
    # cross-constant
    cross3, cross4 = set(), set()
    w01 = [()] + [((j, v),) for j in range(L) for v in range(1, 32)]
    need = {}
    for a in w01:
        sa = 0 if not a else S1[a[0][0]][a[0][1]]
        t = sa ^ D_CROSS
        if bm[t >> 3] & (1 << (t & 7)):
            need.setdefault(t, []).append(a)
    # weight 4: every b in W2 whose S(b)^D is also a W<=2 syndrome
    need2 = set()
    for j1 in range(L - 1):
        r1 = S1[j1]
        for j2 in range(j1 + 1, L):
            r2 = S1[j2]
            for v1 in range(1, 32):
                a = r1[v1]
                for v2 in range(1, 32):
                    t = a ^ r2[v2] ^ D_CROSS
                    if bm[t >> 3] & (1 << (t & 7)):
                        need2.add(t)
    found = patterns_with(set(need) | need2 | {t ^ D_CROSS for t in need2})
    for t, alist in need.items():
        for a in alist:
            for b in found.get(t, []):
                c = combine(a, b)
                if c:
                    (cross3 if len(c) <= 3 else cross4).add(c)
    for t in need2:
        for b in found.get(t, []):
            for a in found.get(t ^ D_CROSS, []):
                c = combine(a, b)
                if c and len(c) <= 3:
                    cross3.add(c)
                elif c:
                    cross4.add(c)
    # every listed pattern is replayed end to end on real addresses
    cases = [{"k": "pattern", "pattern": [list(p) for p in c], "kind": "same"} for c in sorted(same_patterns)[:5000]]
    cases += [{"k": "pattern", "pattern": [list(p) for p in c], "kind": "cross"} for c in sorted(cross3)[:5000]]
    cases += [{"k": "pattern", "pattern": [list(p) for p in c], "kind": "cross"} for c in sorted(cross4)]
    if cases:
        ctx.product("listed-patterns-replayed", cases, execute, chunk=16)
    return {"positions": L, "weight1": n1, "weight2": n2, "collisions": len(collisions), "zero_syndrome_patterns_weight<=4": len(same_patterns),
            "cross_weight<=3": len(cross3), "cross_weight4_listed": len(cross4), "cross_weight4_replayed": len(cross4),
            "direct_polymod_calls": direct_calls, "weight2_by": "direct calls (additivity observed on every pattern)" if ctx.thorough else "XOR of directly measured weight-1 syndromes"}


def run(ctx):
    salt = ctx.seed % 50
    cases = [{"k": "grid", "hrp": h, "ver": v, "plen": n, "pat": p, "salt": salt} for h in HRPS for v in range(0, 18) for n in range(0, 43)
             for p in ("00", "ff", "mix")]
    ctx.product("version-x-length-grid", cases, execute)
    ctx.product("address-helpers-x-witness-version", [{"k": "helpers", "witver": v, "testnet": t, "salt": salt} for v in range(0, 18) for t in (False, True)],
                execute, parallel=False)
    legal = [(v, n) for v in range(0, 17) for n in range(2, 41) if enc.segwit_legal(v, n)]
    if not ctx.thorough:
        legal = [(v, n) for v, n in legal if v in (0, 1, 2, 15, 16) or n in (2, 20, 32, 40)]
    ctx.product("rejection-grammar", [{"k": "rej", "hrp": h, "ver": v, "plen": n, "salt": salt, "blocks": (v, n) in ((0, 20), (1, 32)) or ctx.thorough and (v, n) in shapes()}
                                      for h in ("bc", "tb") for v, n in legal], execute)
    from ..bfs import eviction_probe, PureCalls
    eviction_probe(ctx, "prefix-revisits", PureCalls(10**6, _ev_judge, P), lambda i: i)
    e5 = syndrome_engine(ctx)
    cases = []
    for ver, plen in shapes():
        for hrp in ("bc", "tb"):
            L = 1 + (plen * 8 + 4) // 5 + 6
            cases += [{"k": "subst", "hrp": hrp, "ver": ver, "plen": plen, "weight": 1, "first": f} for f in range(L)]
        cases.append({"k": "hrpsub", "ver": ver, "plen": plen})
    ctx.product("single-substitutions-end-to-end", cases, execute)
    dbl = [(0, 20), (0, 32)] if ctx.thorough else [(16, 2)]
    cases = []
    for ver, plen in dbl:
        L = 1 + (plen * 8 + 4) // 5 + 6
        cases += [{"k": "subst", "hrp": "bc", "ver": ver, "plen": plen, "weight": 2, "first": f} for f in range(L - 1)]
    ctx.product("double-substitutions-end-to-end", cases, execute, chunk=1)
    return {"E5": e5}
