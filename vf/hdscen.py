"""Derivation scenarios executed on the implementation and on the reference model, in one canonical result form.

A scenario is a JSON-able dict {"op": ..., ...}. impl(sc) / ref(sc) return ("ok", canonical) or ("exc", text).
Canonical node = [kind, key hex (32-byte scalar | 33-byte SEC), chain hex, depth, index, parent-fp hex].
"""
from .core import attempt
from .ref import hd, secp

H = hd.H


# ------------------------------------------------------------------ canonical forms
def canon_impl_node(n):
    from btc_hd_wallet.bip32 import PrvKeyNode
    key = bytes(n.key)
    if type(n) is PrvKeyNode:
        if len(key) == 33 and key[0] == 0:
            key = key[1:]
        kind = "prv"
    else:
        kind = "pub"
    return [kind, key.hex(), bytes(n.chain_code).hex(), n.depth, n.index, bytes(n.parent_fingerprint).hex()]


def canon_ref_node(n):
    if n.k is not None:
        return ["prv", n.k.to_bytes(32, "big").hex(), n.chain.hex(), n.depth, n.index, n.pfp.hex()]
    return ["pub", secp.sec(n.K).hex(), n.chain.hex(), n.depth, n.index, n.pfp.hex()]


# ------------------------------------------------------------------ roots
def impl_root(r):
    """r = {"k": int | None, "K": sec hex (pub roots), "chain": hex, "depth","index","pfp"}"""
    from btc_hd_wallet.bip32 import PrvKeyNode, PubKeyNode
    if r.get("parsed"):
        cls = PubKeyNode if r.get("pub") else PrvKeyNode
        return cls.parse(root_xkey(r), testnet=r.get("testnet", False))
    kw = dict(chain_code=bytes.fromhex(r["chain"]), index=r.get("index", 0), depth=r.get("depth", 0),
              testnet=r.get("testnet", False))
    if r.get("pfp"):
        kw["parent_fingerprint"] = bytes.fromhex(r["pfp"])
    if r.get("pub"):
        K = secp.pub(r["k"])
        return PubKeyNode(key=secp.sec(K), **kw)
    return PrvKeyNode(key=r["k"].to_bytes(32, "big"), **kw)


def ref_root(r):
    pfp = bytes.fromhex(r["pfp"]) if r.get("pfp") else b"\x00" * 4
    n = hd.node_from_priv(r["k"], bytes.fromhex(r["chain"]), r.get("depth", 0), r.get("index", 0), pfp)
    return hd.neuter(n) if r.get("pub") else n


def ref_priv_shadow(r):
    """private twin of a (possibly public) root - used only to learn parent scalars for relative PRF answers"""
    pfp = bytes.fromhex(r["pfp"]) if r.get("pfp") else b"\x00" * 4
    return hd.node_from_priv(r["k"], bytes.fromhex(r["chain"]), r.get("depth", 0), r.get("index", 0), pfp)


def root_xkey(r):
    n = ref_root(r)
    t = r.get("testnet", False)
    if r.get("pub"):
        return hd.xpub(n, hd.version_for("pub", t, 44))
    return hd.xprv(n, hd.version_for("prv", t, 44))


# ------------------------------------------------------------------ implementation side
def impl(sc, keep=None):
    """keep: optional dict that receives the live root object (for after-state inspection)"""
    op = sc["op"]
    if op == "master":
        from btc_hd_wallet.bip32 import PrvKeyNode
        return attempt(lambda: canon_impl_node(PrvKeyNode.master_key(bytes.fromhex(sc["seed"]))))
    if op in ("ckd", "derive", "children"):
        root = impl_root(sc["root"])
        if keep is not None:
            keep["root"] = root
        if op == "ckd":
            if sc.get("warm"):
                # N earlier, unrelated derivations in the same process (same kind of node, other key material)
                other = impl_root(dict(sc["root"], k=(sc["root"]["k"] * 7 + 11) % hd.N or 5, chain="5c" * 32))
                for j in range(sc["warm"]):
                    attempt(other.ckd, 1000 + j)
            def one_step():
                for _ in range(sc.get("repeat", 1) - 1):
                    attempt(root.ckd, sc["i"])          # the same request earlier on the same parent object (it may have raised)
                ch = root.ckd(sc["i"])
                if keep is not None:
                    keep["child"] = ch
                return canon_impl_node(ch)
            return attempt(one_step)
        if op == "derive":
            return attempt(lambda: canon_impl_node(root.derive_path(list(sc["path"]))))
        return attempt(lambda: [canon_impl_node(c) for c in root.generate_children(tuple(sc["interval"]))])
    if op in ("by_path", "addrgen", "paper", "bip85_wif", "bip85_xprv", "paper_seed"):
        from btc_hd_wallet.paper_wallet import PaperWallet

        def go():
            if op == "paper_seed":
                w = PaperWallet.from_bip39_seed_hex(sc["seed"], testnet=sc.get("testnet", False))
            else:
                w = PaperWallet.from_extended_key(root_xkey(sc["root"]))
            if keep is not None:
                keep["root"] = w.master
            if op == "by_path":
                return canon_impl_node(w.by_path(sc["path"]))
            if op == "addrgen":
                node = w.master.derive_path(list(sc["base"]))
                g = w.address_generator(node)
                out = [list(next(g))]
                for s in sc["sends"]:
                    out.append(list(g.send(s)))
                return out
            if op in ("paper", "paper_seed"):
                return w.generate(account=sc.get("account", 0), interval=tuple(sc.get("interval", (0, 1))))
            if op == "bip85_wif":
                return w.bip85.wif(sc.get("index", 0))
            return w.bip85.xprv(sc.get("index", 0))
        return attempt(go)
    raise ValueError(op)


# ------------------------------------------------------------------ reference side
def _wrap(f):
    try:
        return "ok", f()
    except ValueError as e:
        return "exc", "ref: " + str(e)


def ref(sc, shadow=False):
    """shadow=True derives privately even for public roots (to trace parent scalars)."""
    op = sc["op"]
    if op == "master":
        return _wrap(lambda: canon_ref_node(hd.master(bytes.fromhex(sc["seed"]))))
    root = None
    if "root" in sc:
        root = ref_priv_shadow(sc["root"]) if shadow else ref_root(sc["root"])
    if op == "ckd":
        return _wrap(lambda: canon_ref_node(hd.derive(root, [sc["i"]])))
    if op == "derive":
        return _wrap(lambda: canon_ref_node(hd.derive(root, sc["path"])))
    if op == "children":
        return _wrap(lambda: [canon_ref_node(hd.derive(root, [i])) for i in range(*sc["interval"])])
    if op == "by_path":
        return _wrap(lambda: canon_ref_node(hd.derive(root, parse_path(sc["path"]))))
    if op == "addrgen":
        def go():
            t = sc["root"].get("testnet", False)
            base = hd.derive(root, sc["base"])
            idx, out = 0, []
            for n, s in enumerate([None] + list(sc["sends"])):
                if n:
                    idx += s or 1
                c = hd.derive(base, [idx])
                mark = "M" if sc["root"].get("pub") else "m"
                out.append([hd.path_str(list(sc["base"]) + [idx], mark), hd.p2wpkh(c.K, t)])
            return out
        return _wrap(go)
    if op in ("paper", "paper_seed"):
        def go():
            m = hd.master(bytes.fromhex(sc["seed"])) if op == "paper_seed" else root
            t = sc.get("testnet", False) if op == "paper_seed" else sc["root"].get("testnet", False)
            return hd.paper_generate(m, t, sc.get("account", 0), tuple(sc.get("interval", (0, 1))))
        return _wrap(go)
    if op == "bip85_wif":
        return _wrap(lambda: hd.bip85_wif(root, sc.get("index", 0)))
    if op == "bip85_xprv":
        return _wrap(lambda: hd.bip85_xprv(root, sc.get("index", 0)))
    raise ValueError(op)


def parse_path(s):
    out = []
    for t in s.split("/")[1:]:
        out.append(int(t[:-1]) + H if t[-1] in "'h" else int(t))
    return out


def clones(obj):
    """[(how, clone)] for every standard way of duplicating an object that works on it (copy.copy, copy.deepcopy, a pickle
    round trip). A way that raises is simply not offered - but a clone that IS handed out has to behave like the original."""
    import copy
    import pickle
    out = []
    for how, f in (("copy.copy", copy.copy), ("copy.deepcopy", copy.deepcopy), ("pickle", lambda o: pickle.loads(pickle.dumps(o)))):
        st, c = attempt(f, obj)
        if st == "ok" and c is not None:
            out.append((how, c))
    return out


def kids(node):
    """the child nodes a node remembers, however it stores them (list, tuple, dict by index, nothing at all)"""
    c = getattr(node, "children", None)
    if c is None:
        return []
    if isinstance(c, dict):
        c = c.values()
    try:
        return [x for x in c if hasattr(x, "chain_code")]
    except TypeError:
        return []


# ------------------------------------------------------------------ after-state: no invalid node may be stored
def stored_invalid(root):
    """Walk root.children recursively; return description of the first stored node whose key is invalid."""
    from btc_hd_wallet.bip32 import PrvKeyNode
    stack, seen = [root], 0
    while stack:
        n = stack.pop()
        seen += 1
        key = bytes(n.key)
        if type(n) is PrvKeyNode:
            if len(key) == 33 and key[0] == 0:
                key = key[1:]
            v = int.from_bytes(key, "big")
            if len(key) != 32 or not (0 < v < hd.N):
                return "private node %s with key %s" % (str(n), key.hex())
        else:
            try:
                secp.parse_sec(key)
            except ValueError:
                return "public node %s with key %s" % (str(n), key.hex())
        stack.extend(kids(n))
    return None
