"""Reference hashes, Base58(Check) and Bech32/Bech32m, written from the specifications.

RIPEMD-160 comes from OpenSSL through hashlib (independent of the repo's pure-Python one).
Bech32 generator constants are *derived* here from the BIP173 generator polynomial over GF(32).
"""
import hashlib
import hmac as _hmac


def sha256(b):
    return hashlib.sha256(b).digest()


def hash256(b):
    return sha256(sha256(b))


def ripemd160(b):
    return hashlib.new("ripemd160", b).digest()


def hash160(b):
    return ripemd160(sha256(b))


_HMAC_NEW = _hmac.new      # saved: the PRF seam of vf/answers.py replaces hmac.new / hmac.digest for the code under test
_HMAC_DIGEST = _hmac.digest


def hmac_sha512(key, msg):
    return _HMAC_DIGEST(key, msg, "sha512")


# ----------------------------------------------------------------------------- Base58
B58 = "123456789ABCDEFGHJKLMNPQRSTUVWXYZabcdefghijkmnopqrstuvwxyz"
_B58IDX = {c: i for i, c in enumerate(B58)}


def b58encode(data):
    """Bitcoin-Core style: digit array with carries, not big-int divmod."""
    zeros = 0
    while zeros < len(data) and data[zeros] == 0:
        zeros += 1
    digits = []  # little endian base-58 digits
    for byte in data[zeros:]:
        carry = byte
        for i in range(len(digits)):
            carry += digits[i] << 8
            digits[i] = carry % 58
            carry //= 58
        while carry:
            digits.append(carry % 58)
            carry //= 58
    return "1" * zeros + "".join(B58[d] for d in reversed(digits))


def b58decode(s):
    """Returns bytes; raises ValueError on a character outside the alphabet."""
    zeros = 0
    while zeros < len(s) and s[zeros] == "1":
        zeros += 1
    out = []  # little endian bytes
    for ch in s[zeros:]:
        if ch not in _B58IDX:
            raise ValueError("bad char")
        carry = _B58IDX[ch]
        for i in range(len(out)):
            carry += out[i] * 58
            out[i] = carry & 0xFF
            carry >>= 8
        while carry:
            out.append(carry & 0xFF)
            carry >>= 8
    for ch in s[:zeros]:
        if ch not in _B58IDX:
            raise ValueError("bad char")
    return b"\x00" * zeros + bytes(reversed(out))


def b58check_encode(payload):
    return b58encode(payload + hash256(payload)[:4])


def b58check_decode(s):
    """Returns payload or raises ValueError."""
    raw = b58decode(s)
    if len(raw) < 4:
        raise ValueError("too short")
    if hash256(raw[:-4])[:4] != raw[-4:]:
        raise ValueError("bad checksum")
    return raw[:-4]


# ----------------------------------------------------------------------------- Bech32
CHARSET = "qpzry9x8gf2tvdw0s3jn54khce6mua7l"
BECH32_CONST = 1
BECH32M_CONST = 0x2BC830A3


def _gf32_mul(a, b):
    """GF(32) with the BIP173 field polynomial x^5 + x^3 + 1."""
    r = 0
    for i in range(5):
        if (b >> i) & 1:
            r ^= a << i
    for i in range(9, 4, -1):
        if (r >> i) & 1:
            r ^= 0b101001 << (i - 5)
    return r


# g(x) = x^6 + {29}x^5 + {22}x^4 + {20}x^3 + {21}x^2 + {29}x + {18}   (BIP173)
_GCOEF = [29, 22, 20, 21, 29, 18]


def _gen_constants():
    out = []
    for i in range(5):
        m = 1 << i
        v = 0
        for c in _GCOEF:
            v = (v << 5) | _gf32_mul(c, m)
        out.append(v)
    return out


GEN = _gen_constants()


def polymod(values):
    chk = 1
    for v in values:
        b = chk >> 25
        chk = ((chk & 0x1FFFFFF) << 5) ^ v
        for i in range(5):
            if (b >> i) & 1:
                chk ^= GEN[i]
    return chk


def hrp_expand(hrp):
    return [ord(c) >> 5 for c in hrp] + [0] + [ord(c) & 31 for c in hrp]


def bech32_raw_encode(hrp, data5, const):
    """Encode 5-bit symbols with the given checksum constant (no validity checks)."""
    pm = polymod(hrp_expand(hrp) + list(data5) + [0] * 6) ^ const
    chk = [(pm >> 5 * (5 - i)) & 31 for i in range(6)]
    return hrp + "1" + "".join(CHARSET[d] for d in list(data5) + chk)


def to5(data8, pad=True):
    acc = bits = 0
    out = []
    for b in data8:
        acc = (acc << 8) | b
        bits += 8
        while bits >= 5:
            bits -= 5
            out.append((acc >> bits) & 31)
    if pad and bits:
        out.append((acc << (5 - bits)) & 31)
    return out


def segwit_encode(hrp, ver, prog, const=None):
    """Reference encoder; const defaults to the BIP350 rule. No legality checks (used to build
    both legal and illegal strings)."""
    if const is None:
        const = BECH32_CONST if ver == 0 else BECH32M_CONST
    return bech32_raw_encode(hrp, [ver] + to5(prog), const)


def segwit_legal(ver, plen, hrp="bc"):
    if not (0 <= ver <= 16):
        return False
    if not (2 <= plen <= 40):
        return False
    if ver == 0 and plen not in (20, 32):
        return False
    total = len(hrp) + 1 + 1 + (plen * 8 + 4) // 5 + 6
    return total <= 90


def segwit_decode(hrp, addr):
    """Strict BIP173/BIP350 decoder. Returns (ver, prog bytes) or None."""
    if any(ord(c) < 33 or ord(c) > 126 for c in addr):
        return None
    if addr.lower() != addr and addr.upper() != addr:
        return None
    addr = addr.lower()
    if len(addr) > 90:
        return None
    pos = addr.rfind("1")
    if pos < 1 or pos + 7 > len(addr):
        return None
    h = addr[:pos]
    if h != hrp.lower():
        return None
    data = []
    for c in addr[pos + 1:]:
        i = CHARSET.find(c)
        if i < 0:
            return None
        data.append(i)
    const = polymod(hrp_expand(h) + data)
    if const not in (BECH32_CONST, BECH32M_CONST):
        return None
    data = data[:-6]
    if not data:
        return None
    ver = data[0]
    acc = bits = 0
    out = []
    for v in data[1:]:
        acc = (acc << 5) | v
        bits += 5
        if bits >= 8:
            bits -= 8
            out.append((acc >> bits) & 0xFF)
    if bits >= 5 or (acc & ((1 << bits) - 1)):
        return None
    if ver > 16 or not (2 <= len(out) <= 40):
        return None
    if ver == 0 and len(out) not in (20, 32):
        return None
    if (ver == 0) != (const == BECH32_CONST):
        return None
    return ver, bytes(out)


def selftest():
    assert GEN == [0x3B6A57B2, 0x26508E6D, 0x1EA119FA, 0x3D4233DD, 0x2A1462B3], GEN
    assert ripemd160(b"abc").hex() == "8eb208f7e05d987a9b044a8e98c6b087f15a0bfc"
    assert b58encode(b"\x00\x00\x01") == "112" and b58decode("112") == b"\x00\x00\x01"
    assert b58encode(b"") == "" and b58decode("") == b""
    a = "1BvBMSEYstWetqTFn5Au4m4GFg7xJaNVN2"
    assert b58check_decode(a)[0] == 0 and b58check_encode(b58check_decode(a)) == a
    # BIP173 / BIP350 vectors
    v = [("bc", "BC1QW508D6QEJXTDG4Y5R3ZARVARY0C5XW7KV8F3T4", 0, "751e76e8199196d454941c45d1b3a323f1433bd6"),
         ("tb", "tb1qrp33g0q5c5txsp9arysrx4k6zdkfs4nce4xj0gdcccefvpysxf3q0sl5k7", 0,
          "1863143c14c5166804bd19203356da136c985678cd4d27a1b8c6329604903262"),
         ("bc", "bc1pw508d6qejxtdg4y5r3zarvary0c5xw7kw508d6qejxtdg4y5r3zarvary0c5xw7kt5nd6y", 1,
          "751e76e8199196d454941c45d1b3a323f1433bd6751e76e8199196d454941c45d1b3a323f1433bd6"),
         ("bc", "BC1SW50QGDZ25J", 16, "751e"),
         ("bc", "bc1zw508d6qejxtdg4y5r3zarvaryvaxxpcs", 2, "751e76e8199196d454941c45d1b3a323"),
         ("bc", "bc1p0xlxvlhemja6c4dqv22uapctqupfhlxm9h8z3k2e72q4k9hcz7vqzk5jj0", 1,
          "79be667ef9dcbbac55a06295ce870b07029bfcdb2dce28d959f2815b16f81798")]
    for hrp, addr, ver, prog in v:
        assert segwit_decode(hrp, addr) == (ver, bytes.fromhex(prog)), addr
        assert segwit_encode(hrp, ver, bytes.fromhex(prog)) == addr.lower()
    bad = ["tc1qw508d6qejxtdg4y5r3zarvary0c5xw7kg3g4ty", "bc1qw508d6qejxtdg4y5r3zarvary0c5xw7kv8f3t5",
           "BC13W508D6QEJXTDG4Y5R3ZARVARY0C5XW7KN40WF2", "bc1rw5uspcuh", "BC1QR508D6QEJXTDG4Y5R3ZARVARYV98GJ9P",
           "bc1zw508d6qejxtdg4y5r3zarvaryvqyzf3du", "bc1gmk9yu",
           "bc1p0xlxvlhemja6c4dqv22uapctqupfhlxm9h8z3k2e72q4k9hcz7vqh2y7hd",  # bech32 instead of bech32m
           "BC1S0XLXVLHEMJA6C4DQV22UAPCTQUPFHLXM9H8Z3K2E72Q4K9HCZ7VQ54WELL",
           "bc1qw508d6qejxtdg4y5r3zarvary0c5xw7kemeawh", "bc1pw5dgrnzv", "bc1p0xlxvlhemja6c4dqv22uapctqupfhlxm9h8z3k2e72q4k9hcz7v8n0nx0muaewav253zgeav",
           "tb1p0xlxvlhemja6c4dqv22uapctqupfhlxm9h8z3k2e72q4k9hcz7vq47Zagq"]
    for b in bad:
        for hrp in ("bc", "tb"):
            assert segwit_decode(hrp, b) is None, b
