"""Reference BIP32 / SLIP-132 / BIP39 / BIP85 / addresses / scripts / paper wallet, from the BIPs."""
import base64
import hashlib
import hmac as _hmac
import os
import unicodedata
from collections import namedtuple

from . import secp
from .enc import (sha256, hash160, hmac_sha512, b58check_encode, b58check_decode, segwit_encode)

H = 2**31
N = secp.N

# ------------------------------------------------------------------------------ SLIP-132
# (prefix, key type, network, bip) typed in from SLIP-0132 / BIP32
SLIP132 = {
    0x0488B21E: ("xpub", "pub", "main", 44), 0x0488ADE4: ("xprv", "prv", "main", 44),
    0x049D7CB2: ("ypub", "pub", "main", 49), 0x049D7878: ("yprv", "prv", "main", 49),
    0x04B24746: ("zpub", "pub", "main", 84), 0x04B2430C: ("zprv", "prv", "main", 84),
    0x043587CF: ("tpub", "pub", "test", 44), 0x04358394: ("tprv", "prv", "test", 44),
    0x044A5262: ("upub", "pub", "test", 49), 0x044A4E28: ("uprv", "prv", "test", 49),
    0x045F1CF6: ("vpub", "pub", "test", 84), 0x045F18BC: ("vprv", "prv", "test", 84),
}


def version_for(kind, testnet, bip):
    for v, (_, k, n, b) in SLIP132.items():
        if k == kind and (n == "test") == bool(testnet) and b == bip:
            return v
    raise KeyError((kind, testnet, bip))


# ------------------------------------------------------------------------------ BIP32
# k is None for public-only nodes; K is the affine point.
Node = namedtuple("Node", "k K chain depth index pfp")


def fingerprint(K):
    return hash160(secp.sec(K))[:4]


# The PRF used by every reference derivation. Checks that substitute the PRF in the implementation install the *same*
# function here (PRF_HOOK[0]) so both sides compute with one function; TRACE (when a list) records (key, msg, k_par).
PRF_HOOK = [hmac_sha512]
TRACE = [None]


def _prf(key, msg, kpar):
    if TRACE[0] is not None:
        TRACE[0].append((key, msg, kpar))
    return PRF_HOOK[0](key, msg)


def master(seed):
    I = _prf(b"Bitcoin seed", seed, 0)
    k = int.from_bytes(I[:32], "big")
    if k == 0 or k >= N:
        raise ValueError("invalid master")
    return Node(k, secp.pub(k), I[32:], 0, 0, b"\x00" * 4)


def node_from_priv(k, chain, depth=0, index=0, pfp=b"\x00" * 4):
    return Node(k, secp.pub(k), chain, depth, index, pfp)


def node_from_pub(K, chain, depth=0, index=0, pfp=b"\x00" * 4):
    return Node(None, K, chain, depth, index, pfp)


def ckd_priv(node, i, prf=None):
    """CKDpriv; raises ValueError for the invalid-child cases of BIP32."""
    assert node.k is not None and 0 <= i < 2**32
    if i >= H:
        data = b"\x00" + node.k.to_bytes(32, "big") + i.to_bytes(4, "big")
    else:
        data = secp.sec(node.K) + i.to_bytes(4, "big")
    I = prf(node.chain, data) if prf else _prf(node.chain, data, node.k)
    il = int.from_bytes(I[:32], "big")
    if il >= N:
        raise ValueError("IL >= n")
    k = (il + node.k) % N
    if k == 0:
        raise ValueError("child key zero")
    return Node(k, secp.pub(k), I[32:], node.depth + 1, i, fingerprint(node.K))


def ckd_pub(node, i, prf=None):
    assert 0 <= i < 2**32
    if i >= H:
        raise ValueError("hardened from public")
    data = secp.sec(node.K) + i.to_bytes(4, "big")
    I = prf(node.chain, data) if prf else _prf(node.chain, data, None)
    il = int.from_bytes(I[:32], "big")
    if il >= N:
        raise ValueError("IL >= n")
    K = secp.add(secp.mul(il), node.K)
    if K is None:
        raise ValueError("infinity")
    return Node(None, K, I[32:], node.depth + 1, i, fingerprint(node.K))


def derive(node, path, prf=None):
    for i in path:
        node = ckd_priv(node, i, prf) if node.k is not None else ckd_pub(node, i, prf)
    return node


def neuter(node):
    return node._replace(k=None)


def ser(version, depth, pfp, index, chain, keydata):
    assert len(pfp) == 4 and len(chain) == 32 and len(keydata) == 33
    return (version.to_bytes(4, "big") + bytes([depth]) + pfp + index.to_bytes(4, "big") + chain + keydata)


def xpub(node, version=0x0488B21E):
    return b58check_encode(ser(version, node.depth, node.pfp, node.index, node.chain, secp.sec(node.K)))


def xprv(node, version=0x0488ADE4):
    return b58check_encode(ser(version, node.depth, node.pfp, node.index, node.chain,
                               b"\x00" + node.k.to_bytes(32, "big")))


def parse_xkey(s):
    """-> (version, Node). Private iff key data starts with 00."""
    raw = b58check_decode(s)
    if len(raw) != 78:
        raise ValueError("length")
    version = int.from_bytes(raw[:4], "big")
    depth = raw[4]
    pfp = raw[5:9]
    index = int.from_bytes(raw[9:13], "big")
    chain = raw[13:45]
    kd = raw[45:]
    if kd[0] == 0:
        k = int.from_bytes(kd[1:], "big")
        if not 0 < k < N:
            raise ValueError("scalar")
        return version, Node(k, secp.pub(k), chain, depth, index, pfp)
    return version, Node(None, secp.parse_sec(kd), chain, depth, index, pfp)


def path_str(path, mark="m"):
    return "/".join([mark] + [(str(i - H) + "'") if i >= H else str(i) for i in path])


# ------------------------------------------------------------------------------ addresses / WIF
def wif(k, compressed=True, testnet=False):
    return b58check_encode((b"\xef" if testnet else b"\x80") + k.to_bytes(32, "big") + (b"\x01" if compressed else b""))


def p2pkh(K, testnet=False, compressed=True):
    return b58check_encode((b"\x6f" if testnet else b"\x00") + hash160(secp.sec(K, compressed)))


def p2sh(script, testnet=False):
    return b58check_encode((b"\xc4" if testnet else b"\x05") + hash160(script))


def p2wpkh(K, testnet=False, compressed=True):
    return segwit_encode("tb" if testnet else "bc", 0, hash160(secp.sec(K, compressed)))


def p2sh_p2wpkh(K, testnet=False):
    return p2sh(b"\x00\x14" + hash160(secp.sec(K)), testnet)


def witness_script_1of1(K):
    return b"\x51\x21" + secp.sec(K) + b"\x51\xae"


def p2wsh(K, testnet=False):
    return segwit_encode("tb" if testnet else "bc", 0, sha256(witness_script_1of1(K)))


def p2sh_p2wsh(K, testnet=False):
    return p2sh(b"\x00\x20" + sha256(witness_script_1of1(K)), testnet)


ADDR = {"p2pkh": p2pkh, "p2wpkh": p2wpkh, "p2sh_p2wpkh": p2sh_p2wpkh, "p2wsh": p2wsh, "p2sh_p2wsh": p2sh_p2wsh}


# ------------------------------------------------------------------------------ BIP39
_HMAC_NEW = _hmac.new
_HERE = os.path.dirname(os.path.abspath(__file__))
WORDLIST_SHA256 = "2f5eed53a4727b4bf8880d8f3f199efc90e58503646d9ff8eff3a2ed3b24dbda"
with open(os.path.join(_HERE, "english.txt"), "rb") as _f:
    _raw = _f.read()
assert hashlib.sha256(_raw).hexdigest() == WORDLIST_SHA256
WORDS = _raw.decode().split()
WORD_INDEX = {w: i for i, w in enumerate(WORDS)}
ENT_SIZES = (16, 20, 24, 28, 32)


def mnemonic_from_entropy(ent):
    if len(ent) not in ENT_SIZES:
        raise ValueError("entropy size")
    cs_bits = len(ent) // 4
    bits = []
    for byte in ent:
        for j in range(7, -1, -1):
            bits.append((byte >> j) & 1)
    h = sha256(ent)
    for j in range(cs_bits):
        bits.append((h[j // 8] >> (7 - j % 8)) & 1)
    words = []
    for w in range(len(bits) // 11):
        v = 0
        for b in bits[w * 11:(w + 1) * 11]:
            v = (v << 1) | b
        words.append(WORDS[v])
    return " ".join(words)


def mnemonic_decode(sentence):
    """-> (entropy bytes, checksum_ok) ; raises ValueError for unknown word / bad count."""
    words = sentence.split(" ")
    if len(words) not in (12, 15, 18, 21, 24):
        raise ValueError("word count")
    acc = 0
    for w in words:
        if w not in WORD_INDEX:
            raise ValueError("unknown word " + w)
        acc = (acc << 11) | WORD_INDEX[w]
    total = len(words) * 11
    cs_bits = total // 33
    ent_bits = total - cs_bits
    ent = (acc >> cs_bits).to_bytes(ent_bits // 8, "big")
    cs = acc & ((1 << cs_bits) - 1)
    exp = int.from_bytes(sha256(ent), "big") >> (256 - cs_bits)
    return ent, cs == exp


def pbkdf2_sha512(password, salt, rounds=2048, dklen=64):
    """Own PBKDF2 loop (RFC 8018) over hmac; single block suffices for dklen <= 64."""
    assert dklen <= 64
    base = _HMAC_NEW(password, digestmod=hashlib.sha512)
    m = base.copy()
    m.update(salt + b"\x00\x00\x00\x01")
    u = m.digest()
    t = int.from_bytes(u, "big")
    for _ in range(rounds - 1):
        m = base.copy()
        m.update(u)
        u = m.digest()
        t ^= int.from_bytes(u, "big")
    return t.to_bytes(64, "big")[:dklen]


def seed_from_mnemonic(mnemonic, passphrase=""):
    m = unicodedata.normalize("NFKD", mnemonic).encode("utf-8")
    s = ("mnemonic" + unicodedata.normalize("NFKD", passphrase)).encode("utf-8")
    return pbkdf2_sha512(m, s)


# ------------------------------------------------------------------------------ BIP85
BIP85_ROOT = 83696968


def bip85_entropy(master_node, path):
    """path: list of *unhardened* numbers; every level is hardened per BIP85."""
    node = derive(master_node, [H + p for p in path])
    return _prf(b"bip-entropy-from-k", node.k.to_bytes(32, "big"), None)


def _chk_index(i):
    if not (isinstance(i, int) and 0 <= i < H):
        raise ValueError("index")


def bip85_mnemonic(master_node, words, index):
    _chk_index(index)
    if words not in (12, 15, 18, 21, 24):
        raise ValueError("words")
    e = bip85_entropy(master_node, [BIP85_ROOT, 39, 0, words, index])
    return mnemonic_from_entropy(e[:words * 4 // 3])


def bip85_wif(master_node, index):
    _chk_index(index)
    e = bip85_entropy(master_node, [BIP85_ROOT, 2, index])
    k = int.from_bytes(e[:32], "big")
    if not 0 < k < N:
        raise ValueError("key")
    return wif(k)


def bip85_xprv(master_node, index):
    _chk_index(index)
    e = bip85_entropy(master_node, [BIP85_ROOT, 32, index])
    k = int.from_bytes(e[32:], "big")
    if not 0 < k < N:
        raise ValueError("key")
    return xprv(Node(k, secp.pub(k), e[:32], 0, 0, b"\x00" * 4))


def bip85_hex(master_node, nbytes, index):
    _chk_index(index)
    if not 16 <= nbytes <= 64:
        raise ValueError("nbytes")
    return bip85_entropy(master_node, [BIP85_ROOT, 128169, nbytes, index])[:nbytes].hex()


def bip85_pwd(master_node, length, index):
    _chk_index(index)
    if not 20 <= length <= 86:
        raise ValueError("len")
    e = bip85_entropy(master_node, [BIP85_ROOT, 707764, length, index])
    return base64.b64encode(e).decode()[:length]


# ------------------------------------------------------------------------------ script
def push(data):
    n = len(data)
    if n == 0:
        raise ValueError("empty element has no bare-length push")
    if n <= 75:
        return bytes([n]) + data
    if n <= 255:
        return b"\x4c" + bytes([n]) + data
    if n <= 520:
        return b"\x4d" + n.to_bytes(2, "little") + data
    raise ValueError("too long")


def script_raw(cmds):
    out = b""
    for c in cmds:
        out += bytes([c]) if isinstance(c, int) else push(c)
    return out


def varint(n):
    if n < 0xFD:
        return bytes([n])
    if n <= 0xFFFF:
        return b"\xfd" + n.to_bytes(2, "little")
    if n <= 0xFFFFFFFF:
        return b"\xfe" + n.to_bytes(4, "little")
    if n < 2**64:
        return b"\xff" + n.to_bytes(8, "little")
    raise ValueError("too large")


def read_varint(b, pos=0):
    """-> (value, new pos); raises on truncation."""
    if pos >= len(b):
        raise ValueError("eof")
    f = b[pos]
    w = {0xFD: 2, 0xFE: 4, 0xFF: 8}.get(f, 0)
    if w == 0:
        return f, pos + 1
    if pos + 1 + w > len(b):
        raise ValueError("eof")
    return int.from_bytes(b[pos + 1:pos + 1 + w], "little"), pos + 1 + w


def script_parse(b):
    """Strict parser of varint(len) || body. -> (cmds, consumed). Raises on any short read or
    when an element overruns the declared length."""
    length, pos = read_varint(b)
    end = pos + length
    if end > len(b):
        raise ValueError("body shorter than declared")
    cmds = []
    while pos < end:
        op = b[pos]
        pos += 1
        if 1 <= op <= 75:
            n = op
        elif op == 76:
            if pos + 1 > end:
                raise ValueError("eof")
            n = b[pos]
            pos += 1
        elif op == 77:
            if pos + 2 > end:
                raise ValueError("eof")
            n = int.from_bytes(b[pos:pos + 2], "little")
            pos += 2
        else:
            cmds.append(op)
            continue
        if pos + n > end:
            raise ValueError("element overruns script")
        cmds.append(bytes(b[pos:pos + n]))
        pos += n
    return cmds, pos


# ------------------------------------------------------------------------------ paper wallet
PURPOSES = ((44, "BIP44", "p2pkh"), (49, "BIP49", "p2sh_p2wpkh"), (84, "BIP84", "p2wpkh"))


def paper_generate(master_node, testnet, account, interval, mnemonic=None, password=None, with_bip85=True):
    """Expected PaperWallet.generate() dictionary for a full (private) wallet."""
    out = {"MASTER": {"mnemonic": mnemonic, "password": password}}
    if with_bip85:
        out["BIP85"] = bip85_block(master_node)
    coin = 1 if testnet else 0
    for purpose, name, kind in PURPOSES:
        path = [H + purpose, H + coin, H + account]
        acct = derive(master_node, path)
        ext = derive(acct, [0])
        rows = []
        for i in range(*interval):
            leaf = ckd_priv(ext, i)
            rows.append([path_str(path + [0, i]), ADDR[kind](leaf.K, testnet), secp.sec(leaf.K).hex(),
                         wif(leaf.k, True, testnet)])
        out[name] = {
            "account_extended_keys": {
                "path": path_str(path),
                "pub": xpub(acct, version_for("pub", testnet, purpose)),
                "prv": xprv(acct, version_for("prv", testnet, purpose)),
            },
            "groups": rows,
        }
    return out


def bip85_block(master_node):
    d = {}
    for w in (24, 18, 12):
        d["m/83696968'/39'/0'/%d'/0'" % w] = bip85_mnemonic(master_node, w, 0)
    for i in range(3):
        d["m/83696968'/2'/%d'" % i] = bip85_wif(master_node, i)
    for i in range(3):
        d["m/83696968'/32'/%d'" % i] = bip85_xprv(master_node, i)
    return d


def selftest():
    # BIP32 test vector 1
    m = master(bytes.fromhex("000102030405060708090a0b0c0d0e0f"))
    assert xprv(m) == ("xprv9s21ZrQH143K3QTDL4LXw2F7HEK3wJUD2nW2nRk4stbPy6cq3jPPqjiChkVvvNKmPGJxWUtg6LnF5kejMRNNU3TGtRBeJgk33yuGBxrMPHi")
    c = derive(m, [H, 1, H + 2, 2, 1000000000])
    assert xpub(c) == ("xpub6H1LXWLaKsWFhvm6RVpEL9P4KfRZSW7abD2ttkWP3SSQvnyA8FSVqNTEcYFgJS2UaFcxupHiYkro49S8yGasTvXEYBVPamhGW6cFJodrTHy")
    assert xprv(c) == ("xprvA41z7zogVVwxVSgdKUHDy1SKmdb533PjDz7J6N6mV6uS3ze1ai8FHa8kmHScGpWmj4WggLyQjgPie1rFSruoUihUZREPSL39UNdE3BBDu76")
    p = derive(neuter(derive(m, [H, 1, H + 2])), [2, 1000000000])
    assert xpub(p) == xpub(c)
    v, n = parse_xkey(xprv(c))
    assert v == 0x0488ADE4 and n == c
    # BIP39 (Trezor vector)
    ent = bytes.fromhex("7f" * 16)
    mn = "legal winner thank year wave sausage worth useful legal winner thank yellow"
    assert mnemonic_from_entropy(ent) == mn and mnemonic_decode(mn) == (ent, True)
    assert seed_from_mnemonic(mn, "TREZOR").hex() == (
        "2e8905819b8723fe2c1d161860e5ee1830318dbf49a83bd451cfb8440c28bd6fa457fe1296106559a3c80937a1c1069be3a3a5bd381ee6260e8d9739fce1f607")
    assert seed_from_mnemonic(mn, "TREZOR") == hashlib.pbkdf2_hmac("sha512", mn.encode(), b"mnemonicTREZOR", 2048)
    # BIP85 vectors
    _, bm = parse_xkey("xprv9s21ZrQH143K2LBWUUQRFXhucrQqBpKdRRxNVq2zBqsx8HVqFk2uYo8kmbaLLHRdqtQpUm98uKfu3vca1LqdGhUtyoFnCNkfmXRyPXLjbKb")
    assert bip85_mnemonic(bm, 12, 0) == "girl mad pet galaxy egg matter matrix prison refuse sense ordinary nose"
    assert bip85_wif(bm, 0) == "Kzyv4uF39d4Jrw2W7UryTHwZr1zQVNk4dAFyqE6BuMrMh1Za7uhp"
    assert bip85_xprv(bm, 0) == ("xprv9s21ZrQH143K2srSbCSg4m4kLvPMzcWydgmKEnMmoZUurYuBuYG46c6P71UGXMzmriLzCCBvKQWBUv3vPB3m1SATMhp3uEjXHJ42jFg7myX")
    assert bip85_hex(bm, 64, 0) == ("492db4698cf3b73a5a24998aa3e9d7fa96275d85724a91e71aa2d645442f878555d078fd1f1f67e368976f04137b1f7a0d19232136ca50c44614af72b5582a5c")
    assert bip85_pwd(bm, 21, 0) == "dKLoepugzdVJvdL56ogNV"
    # addresses (BIP84 / BIP49 test vectors)
    _, zm = 0, master(seed_from_mnemonic("abandon " * 11 + "about"))
    leaf = derive(zm, [H + 84, H, H, 0, 0])
    assert p2wpkh(leaf.K) == "bc1qcr8te4kr609gcawutmrza0j4xv80jy8z306fyu"
    assert xpub(derive(zm, [H + 84, H, H]), 0x04B24746) == (
        "zpub6rFR7y4Q2AijBEqTUquhVz398htDFrtymD9xYYfG1m4wAcvPhXNfE3EfH1r1ADqtfSdVCToUG868RvUUkgDKf31mGDtKsAYz2oz2AGutZYs")
    leaf49 = derive(zm, [H + 49, H, H, 0, 0])
    assert p2sh_p2wpkh(leaf49.K) == "37VucYSaXLCAsxYyAPfbSi9eh4iEcbShgf"
    assert script_parse(varint(4) + b"\x02ab\x51")[0] == [b"ab", 0x51]
