"""Reference secp256k1 arithmetic (own Jacobian code, no third-party library).

Written from SEC2 / the curve equation y^2 = x^3 + 7 over F_p; independent of `ecdsa`.
"""
from functools import lru_cache

P = 2**256 - 2**32 - 977
N = 0xFFFFFFFFFFFFFFFFFFFFFFFFFFFFFFFEBAAEDCE6AF48A03BBFD25E8CD0364141
GX = 0x79BE667EF9DCBBAC55A06295CE870B07029BFCDB2DCE28D959F2815B16F81798
GY = 0x483ADA7726A3C4655DA4FBFC0E1108A8FD17B448A68554199C47D08FFB10D4B8
G = (GX, GY)


def on_curve(pt):
    if pt is None:
        return True
    x, y = pt
    return 0 <= x < P and 0 <= y < P and (y * y - x * x * x - 7) % P == 0


def _jdbl(X1, Y1, Z1):
    if Y1 == 0 or Z1 == 0:
        return (0, 1, 0)
    S = (4 * X1 * Y1 * Y1) % P
    M = (3 * X1 * X1) % P
    X3 = (M * M - 2 * S) % P
    Y3 = (M * (S - X3) - 8 * Y1 * Y1 * Y1 * Y1) % P
    Z3 = (2 * Y1 * Z1) % P
    return (X3, Y3, Z3)


def _jadd(X1, Y1, Z1, X2, Y2, Z2):
    if Z1 == 0:
        return (X2, Y2, Z2)
    if Z2 == 0:
        return (X1, Y1, Z1)
    Z1Z1 = (Z1 * Z1) % P
    Z2Z2 = (Z2 * Z2) % P
    U1 = (X1 * Z2Z2) % P
    U2 = (X2 * Z1Z1) % P
    S1 = (Y1 * Z2 * Z2Z2) % P
    S2 = (Y2 * Z1 * Z1Z1) % P
    if U1 == U2:
        if S1 != S2:
            return (0, 1, 0)
        return _jdbl(X1, Y1, Z1)
    H = (U2 - U1) % P
    R = (S2 - S1) % P
    H2 = (H * H) % P
    H3 = (H * H2) % P
    U1H2 = (U1 * H2) % P
    X3 = (R * R - H3 - 2 * U1H2) % P
    Y3 = (R * (U1H2 - X3) - S1 * H3) % P
    Z3 = (H * Z1 * Z2) % P
    return (X3, Y3, Z3)


def _affine(X, Y, Z):
    if Z == 0:
        return None
    zi = pow(Z, -1, P)
    zi2 = (zi * zi) % P
    return ((X * zi2) % P, (Y * zi2 * zi) % P)


def add(p1, p2):
    """Affine point addition (None is the point at infinity)."""
    a = (0, 1, 0) if p1 is None else (p1[0], p1[1], 1)
    b = (0, 1, 0) if p2 is None else (p2[0], p2[1], 1)
    return _affine(*_jadd(*a, *b))


def neg(p):
    return None if p is None else (p[0], (-p[1]) % P)


def mul(k, pt=G):
    """k * pt by double-and-add, k taken mod N."""
    k %= N
    if k == 0 or pt is None:
        return None
    acc = (0, 1, 0)
    base = (pt[0], pt[1], 1)
    while k:
        if k & 1:
            acc = _jadd(*acc, *base)
        base = _jdbl(*base)
        k >>= 1
    return _affine(*acc)


@lru_cache(maxsize=200000)
def pub(k):
    """k*G for a scalar in [1, N-1]."""
    assert 0 < k < N
    return mul(k, G)


def lift_x(x, odd):
    """Return y with requested parity for x, or None when x^3+7 is no square / x out of range."""
    if not (0 <= x < P):
        return None
    rhs = (pow(x, 3, P) + 7) % P
    y = pow(rhs, (P + 1) // 4, P)
    if (y * y) % P != rhs:
        return None
    if (y & 1) != (1 if odd else 0):
        y = P - y
    return y


def sec(pt, compressed=True):
    x, y = pt
    if compressed:
        return bytes([2 + (y & 1)]) + x.to_bytes(32, "big")
    return b"\x04" + x.to_bytes(32, "big") + y.to_bytes(32, "big")


def parse_sec(b):
    """Strict SEC1 parser for compressed (02/03) and uncompressed (04) encodings."""
    if len(b) == 33 and b[0] in (2, 3):
        x = int.from_bytes(b[1:], "big")
        y = lift_x(x, b[0] == 3)
        if y is None:
            raise ValueError("not on curve")
        return (x, y)
    if len(b) == 65 and b[0] == 4:
        x = int.from_bytes(b[1:33], "big")
        y = int.from_bytes(b[33:], "big")
        if not on_curve((x, y)):
            raise ValueError("not on curve")
        return (x, y)
    raise ValueError("bad SEC encoding")


def selftest():
    assert on_curve(G)
    assert mul(N - 1) == neg(G)
    assert mul(N) is None
    assert add(G, neg(G)) is None
    assert add(G, G) == mul(2)
    # k=2,3 public vectors (well known)
    assert mul(2)[0] == 0xC6047F9441ED7D6D3045406E95C07CD85C778E4B8CEF3CA7ABAC09B95C709EE5
    assert mul(3)[0] == 0xF9308A019258C31049344F85F89D5229B531C845836F99B08601F113BCE036F9
    k = 0xAA5E28D6A97A2479A65527F7290311A3624D4CC0FA1578598EE3C2613BF99522
    assert sec(mul(k)).hex() == "0234f9460f0e4f08393d192b3c5133a6ba099aa0ad9fd54ebccfacdfa239ff49c6"
    assert parse_sec(sec(mul(k))) == mul(k)
    assert parse_sec(sec(mul(k), False)) == mul(k)
    assert add(mul(5), mul(7)) == mul(12)
