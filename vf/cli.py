"""E6 - run the package's command line in-process (and, for cross-checking, as a real subprocess) inside a scratch
directory whose contents are prepared and snapshotted by the harness."""
import contextlib
import hashlib
import io
import os
import re
import shutil
import subprocess
import sys
import tempfile

from . import core
from .ref import enc, hd

KEEP = b"PRE-EXISTING CONTENT - MUST SURVIVE\n"


def prepare(d):
    """file-system states the -f option can meet"""
    with open(os.path.join(d, "exists.json"), "wb") as f:
        f.write(KEEP)
    os.mkdir(os.path.join(d, "adir"))
    os.symlink("exists.json", os.path.join(d, "link.json"))
    os.symlink("missing-target.json", os.path.join(d, "dangling.json"))


def snapshot(d):
    out = {}
    for root, dirs, files in os.walk(d):
        for name in dirs + files:
            p = os.path.join(root, name)
            rel = os.path.relpath(p, d)
            if os.path.islink(p):
                out[rel] = "link->" + os.readlink(p)
            elif os.path.isdir(p):
                out[rel] = "dir"
            else:
                with open(p, "rb") as f:
                    out[rel] = "file:" + hashlib.sha256(f.read()).hexdigest()
    return out


def run_inprocess(argv, urandom=None, workdir=None):
    """-> dict(status, stdout, stderr, before, after, files{rel: text of new/changed regular files})
    workdir: an existing scratch directory to run in (kept afterwards) - for SEQUENCES of invocations in one process"""
    import btc_hd_wallet.__main__ as M
    d = workdir or tempfile.mkdtemp(prefix="vfcli.")
    old_cwd, old_argv = os.getcwd(), sys.argv
    out, err = io.StringIO(), io.StringIO()
    import random as _random
    saved = (os.urandom, _random._urandom)
    try:
        if workdir is None:
            prepare(d)
        before = snapshot(d)
        os.chdir(d)
        sys.argv = ["btc_hd_wallet"] + list(argv)
        if urandom is not None:
            os.urandom = urandom
            _random._urandom = urandom
        status = 0
        with contextlib.redirect_stdout(out), contextlib.redirect_stderr(err):
            try:
                M.main()
            except SystemExit as e:
                status = e.code if isinstance(e.code, int) else (0 if e.code is None else 1)
            except BaseException as e:  # the interpreter would print a traceback to stderr and exit 1
                if isinstance(e, (KeyboardInterrupt, MemoryError)):
                    raise
                status = 1
                err.write("Traceback: %s: %s\n" % (type(e).__name__, e))
        after = snapshot(d)
        files = _changed_files(d, before, after)
        return {"status": status, "stdout": out.getvalue(), "stderr": err.getvalue(), "before": before, "after": after, "files": files}
    finally:
        os.urandom, _random._urandom = saved
        sys.argv = old_argv
        os.chdir(old_cwd)
        if workdir is None:
            shutil.rmtree(d, ignore_errors=True)


def _changed_files(d, before, after):
    files = {}
    for rel, sig in after.items():
        if before.get(rel) != sig and sig.startswith("file:"):
            with open(os.path.join(d, rel), "r", errors="replace") as f:
                files[rel] = f.read()
    return files


def run_subprocess(argv):
    d = tempfile.mkdtemp(prefix="vfcli.")
    try:
        prepare(d)
        before = snapshot(d)
        env = dict(os.environ, PYTHONPATH=core.REPO, PYTHONDONTWRITEBYTECODE="1", PYTHONHASHSEED="0")
        r = subprocess.run(["/venv/bin/python", "-B", "-m", "btc_hd_wallet"] + list(argv), cwd=d, env=env,
                           capture_output=True, text=True, timeout=300)
        after = snapshot(d)
        return {"status": r.returncode, "stdout": r.stdout, "stderr": r.stderr, "before": before, "after": after,
                "files": _changed_files(d, before, after)}
    finally:
        shutil.rmtree(d, ignore_errors=True)


# ------------------------------------------------------------------------------------ wallet-data detector
_TOKEN = re.compile(r"[A-Za-z0-9]{14,}")


def wallet_tokens(text):
    """Tokens of `text` that decode as an address, WIF, or extended key (independent decoders)."""
    found = []
    for t in _TOKEN.findall(text):
        try:
            p = enc.b58check_decode(t)
            if (len(p) == 21 and p[0] in (0x00, 0x05, 0x6F, 0xC4)) or (len(p) in (33, 34) and p[0] in (0x80, 0xEF)) or len(p) == 78:
                found.append(t)
                continue
        except ValueError:
            pass
        low = t.lower()
        for hrp in ("bc", "tb"):
            if low.startswith(hrp + "1") and enc.segwit_decode(hrp, t) is not None:
                found.append(t)
    words = re.findall(r"[a-z]+", text)
    run = 0
    for w in words:
        run = run + 1 if w in hd.WORD_INDEX else 0
        if run >= 12:
            found.append("<12 consecutive BIP39 words>")
            break
    return found
