"""Runner core: repo binding, fork pool, violation bookkeeping, replay files, known findings, evidence."""
import hashlib
import json
import multiprocessing
import os
import random
import sys
import time
import traceback

VERIF = os.path.dirname(os.path.dirname(os.path.abspath(__file__)))
REPO = os.path.realpath(os.environ.get("VERIF_REPO", "/repo"))
NPROC = int(os.environ.get("VERIF_NPROC", "16"))
if "VERIF_REPO" in os.environ:
    # my own mutation campaign on a scratch copy: never touch the evidence / replays that describe /repo itself
    EVIDENCE_DIR = os.path.join("/tmp", "verif-scratch-evidence")
    REPLAY_DIR = os.path.join("/tmp", "verif-scratch-replays")
else:
    EVIDENCE_DIR = os.environ.get("VERIF_EVIDENCE_DIR") or os.path.join(VERIF, "evidence")
    REPLAY_DIR = os.path.join(VERIF, "replays")
KNOWN_FILE = os.path.join(VERIF, "KNOWN_FINDINGS.txt")


class HarnessError(Exception):
    """The machinery itself is broken (exit 2) - never reported as a VIOLATION."""


class ImplRaised(Exception):
    """raised in the parent of an isolated child in which the implementation raised unexpectedly; carries the V record"""
    def __init__(self, v):
        Exception.__init__(self, v["msg"])
        self.v = v


def bind_repo():
    sys.dont_write_bytecode = True
    if REPO not in sys.path[:1]:
        sys.path.insert(0, REPO)
    if "btc_hd_wallet" not in sys.modules:
        from . import answers
        answers.install_tracking()           # hmac.new / hmac.digest of the code under test are owned from before its import
    import btc_hd_wallet
    f = os.path.realpath(btc_hd_wallet.__file__)
    if not f.startswith(REPO + os.sep):
        raise HarnessError("btc_hd_wallet imported from %s, not from %s" % (f, REPO))
    import btc_hd_wallet.keys as keys
    backend = "ecdsa" if hasattr(keys, "ecdsa") else "libsecp256k1"
    if backend == "ecdsa":
        # warm THIRD-PARTY lazy state (ecdsa's precomputed generator multiples) once in the parent, so that forked
        # children do not pay for it; no code of the package under test is executed here
        import ecdsa
        sk = ecdsa.SigningKey.from_string(b"\x01" * 31 + b"\x02", curve=ecdsa.curves.SECP256k1)
        vk = sk.get_verifying_key()
        ecdsa.VerifyingKey.from_string(vk.to_string("compressed"), curve=ecdsa.curves.SECP256k1)
    return backend


# --------------------------------------------------------------------------------------- helpers
def jhash(obj):
    return hashlib.sha256(json.dumps(obj, sort_keys=True, default=_jd).encode()).hexdigest()[:16]


def _jd(o):
    if isinstance(o, (bytes, bytearray)):
        return {"hex": bytes(o).hex()}
    if isinstance(o, (set, frozenset)):
        return sorted(o)
    if isinstance(o, tuple):
        return list(o)
    return repr(o)


class CaseTimeout(BaseException):
    """the per-case deadline fired (SIGALRM): code that does not come back is reported, not waited for"""


CASE_TIMEOUT = float(os.environ.get("VERIF_CASE_TIMEOUT", "300"))


def _on_alarm(signum, frame):
    raise CaseTimeout("no result within the per-case deadline")


class deadline:
    """with deadline(seconds): ... -> CaseTimeout is raised inside the block when it runs longer (main thread, POSIX)"""

    def __init__(self, seconds):
        self.seconds = seconds

    def __enter__(self):
        import signal
        self.old = signal.signal(signal.SIGALRM, _on_alarm)
        signal.setitimer(signal.ITIMER_REAL, self.seconds)

    def __exit__(self, *a):
        import signal
        signal.setitimer(signal.ITIMER_REAL, 0)
        signal.signal(signal.SIGALRM, self.old)
        return False


def attempt(f, *a, **kw):
    """Call implementation code. -> ("ok", value) | ("exc", "TypeName: msg")"""
    try:
        return "ok", f(*a, **kw)
    except BaseException as e:  # SystemExit/AssertionError included: any refusal counts
        if isinstance(e, (KeyboardInterrupt, MemoryError, CaseTimeout)):
            raise
        return "exc", "%s: %s" % (type(e).__name__, str(e)[:120])


def project(obs, exp):
    """the observed value restricted to what the reference defines: additional fields of a mapping are not judged, tuples are
    lists; a missing field shows as "<missing>" """
    if isinstance(exp, dict) and hasattr(obs, "items"):
        return {k: (project(obs[k], exp[k]) if k in obs else "<missing>") for k in exp}
    if isinstance(exp, (list, tuple)) and isinstance(obs, (list, tuple)) and len(obs) == len(exp):
        return [project(o, e) for o, e in zip(obs, exp)]
    if isinstance(obs, tuple):
        return list(obs)
    return obs


def V(key, msg, observed=None, expected=None, case=None):
    """A violation record. `key` = <prop>:<seam>:<input-class>[:detail] (see DESIGN appendix A)."""
    d = {"key": key, "msg": msg}
    if observed is not None:
        d["observed"] = observed
    if expected is not None:
        d["expected"] = expected
    if case is not None:
        d["case"] = case
    return d


def R(outcome, nontrivial=True, viols=(), n=1, nt=None, extra=None):
    """Result of executing one case (or one bulk block of n evaluations)."""
    return {"o": outcome, "n": n, "nt": (n if nontrivial else 0) if nt is None else nt,
            "v": list(viols), "x": extra}


def isolated(fn, *args):
    """Run fn(*args) in a forked child so that module-level / class-level state of the package starts pristine
    (as imported) for every history; the result comes back pickled over a pipe."""
    import pickle
    r, w = os.pipe()
    pid = os.fork()
    if pid == 0:
        code = 0
        try:
            os.close(r)
            try:
                with deadline(CASE_TIMEOUT * 0.9):
                    payload = pickle.dumps(("ok", fn(*args)))
            except BaseException as e:
                v = impl_exception("?", e)
                payload = pickle.dumps(("impl", v) if v is not None else ("err", traceback.format_exc()))
            with os.fdopen(w, "wb") as f:
                f.write(payload)
        except BaseException:
            code = 3
        finally:
            os._exit(code)
    os.close(w)
    with os.fdopen(r, "rb") as f:
        data = f.read()
    os.waitpid(pid, 0)
    if not data:
        raise HarnessError("isolated child died without a result")
    st, val = pickle.loads(data)
    if st == "err":
        raise HarnessError("isolated child failed:\n" + val)
    if st == "impl":
        raise ImplRaised(val)
    return val


# --------------------------------------------------------------------------------------- pool
_EXEC = {}


def impl_exception(prop, exc):
    """An exception that escaped a check: if it was RAISED INSIDE THE PACKAGE UNDER TEST (innermost package frame is
    deeper than any /verif frame that could have caught it) on a path the check expects to succeed, it is reported as a
    violation (the check only ever calls the implementation with inputs it must accept, everything else goes through
    attempt()); otherwise it is a defect of the harness."""
    if isinstance(exc, ImplRaised):
        v = dict(exc.v)
        v["key"] = v["key"].replace("?:", prop + ":", 1)
        return v
    tb = exc.__traceback__
    last_repo = last_verif = None
    depth = 0
    while tb is not None:
        if isinstance(exc, CaseTimeout) and tb.tb_frame.f_code is _on_alarm.__code__:
            break                      # the handler's own frame says nothing about where the time was spent
        f = os.path.realpath(tb.tb_frame.f_code.co_filename)
        if f.startswith(REPO + os.sep):
            last_repo = (depth, os.path.basename(f), tb.tb_frame.f_code.co_name, tb.tb_lineno)
        elif f.startswith(VERIF + os.sep):
            last_verif = depth
        depth += 1
        tb = tb.tb_next
    if isinstance(exc, HarnessError) or last_repo is None or (last_verif is not None and last_verif > last_repo[0]):
        return None
    if isinstance(exc, CaseTimeout):
        return V("%s:no-termination:%s" % (prop, last_repo[2]),
                 "the implementation did not return within the per-case deadline (%d s); it was executing %s:%s (line %d) when stopped" % (
                     CASE_TIMEOUT, last_repo[1], last_repo[2], last_repo[3]))
    return V("%s:unexpected-exception:%s:%s" % (prop, last_repo[2], type(exc).__name__),
             "the implementation raised %s: %s in %s:%s (line %d) on a request that must succeed" % (
                 type(exc).__name__, str(exc)[:160], last_repo[1], last_repo[2], last_repo[3]))


def guarded(prop, fn, case):
    limit = getattr(sys.modules.get(getattr(fn, "__module__", ""), None), "CASE_TIMEOUT", CASE_TIMEOUT)
    try:
        with deadline(limit):
            return fn(case)
    except BaseException as e:
        if isinstance(e, (KeyboardInterrupt, MemoryError)):
            raise
        v = impl_exception(prop, e)
        if v is None:
            raise
        return R("violation", viols=[v])


def _run_chunk(arg):
    name, chunk = arg
    fn = _EXEC[name]
    prop = name.split("/")[0]
    agg = {"n": 0, "nt": 0, "o": {}, "v": [], "x": []}
    for idx, case in chunk:
        try:
            r = guarded(prop, fn, case)
        except BaseException:
            return {"error": "case %r\n%s" % (case, traceback.format_exc())}
        agg["n"] += r["n"]
        agg["nt"] += r["nt"]
        o = r["o"]
        if isinstance(o, dict):
            for k, c in o.items():
                agg["o"][k] = agg["o"].get(k, 0) + c
        else:
            agg["o"][o] = agg["o"].get(o, 0) + r["n"]
        for v in r["v"]:
            if v.get("case") is not None and v["case"] is not case and v["case"] != case:
                v["bulk"] = case          # the single case was split out of a bulk case: keep the originating case too
            v.setdefault("case", case)
            v["idx"] = idx
            agg["v"].append(v)
        if r.get("x") is not None:
            agg["x"].append(r["x"])
    return agg


class Ctx:
    def __init__(self, prop, tier, seed, level):
        self.prop, self.tier, self.seed, self.level = prop, tier, seed, level
        self.thorough = tier == "thorough"
        self.layers = {}
        self.violations = []
        self.samples = []
        self.assumptions = []
        self.extra = {}
        self.caps = []
        self._pool = None
        self.t0 = time.time()

    # deterministic "generic" representatives
    def rng(self, name):
        return random.Random("%s|%s|%s" % (self.prop, self.seed, name))

    def pick(self, a, b):
        return b if self.thorough else a

    def pool(self):
        if self._pool is None:
            # maxtasksperchild=1: every chunk runs in a freshly forked worker, so the cases of a chunk that precede a
            # violating case are the complete in-process history since import (used to make replays self-contained)
            self._pool = multiprocessing.get_context("fork").Pool(NPROC, maxtasksperchild=1)
        return self._pool

    def close(self):
        if self._pool is not None:
            self._pool.terminate()
            self._pool = None

    def product(self, layer, cases, execute, chunk=None, parallel=True, nsamples=2):
        """Run every case of an (already fully enumerated) list through `execute`."""
        t_layer = time.time()
        cases = list(cases)
        seen, uniq = set(), []
        for c in cases:
            h = jhash(c)
            if h not in seen:
                seen.add(h)
                uniq.append(c)
        dup = len(cases) - len(uniq)
        name = "%s/%s" % (self.prop, layer)
        _EXEC[name] = execute
        indexed = list(enumerate(uniq))
        agg = {"n": 0, "nt": 0, "o": {}, "v": [], "x": []}
        if parallel and len(uniq) > 8 and NPROC > 1:
            if self._pool is not None:  # registry changed: need fresh forks
                self.close()
            cs = chunk or max(1, min(256, len(uniq) // (NPROC * 4) or 1))
            chunks = [(name, indexed[i:i + cs]) for i in range(0, len(indexed), cs)]
            results = self.pool().imap_unordered(_run_chunk, chunks)
        else:
            cs = len(indexed) or 1
            results = [isolated(_run_chunk, (name, indexed))] if indexed else []
        for r in results:
            if "error" in r:
                self.close()
                raise HarnessError("worker failed in layer %s:\n%s" % (layer, r["error"]))
            agg["n"] += r["n"]
            agg["nt"] += r["nt"]
            for k, c in r["o"].items():
                agg["o"][k] = agg["o"].get(k, 0) + c
            agg["v"].extend(r["v"])
            agg["x"].extend(r["x"])
        self.close()
        L = self.layers.setdefault(layer, {"cases": 0, "evaluations": 0, "nontrivial": 0, "outcomes": {},
                                           "duplicates_dropped": 0})
        L["cases"] += len(uniq)
        L["evaluations"] += agg["n"]
        L["nontrivial"] += agg["nt"]
        L["duplicates_dropped"] += dup
        L["wall_s"] = round(L.get("wall_s", 0) + time.time() - t_layer, 2)
        for k, c in agg["o"].items():
            L["outcomes"][k] = L["outcomes"].get(k, 0) + c
        for v in agg["v"]:
            v["layer"] = layer
            i = v.get("idx", 0)
            v["prefix"] = uniq[(i // cs) * cs:i]
        self.violations.extend(agg["v"])
        if uniq:
            step = max(1, len(uniq) // nsamples)
            for c in uniq[::step][:nsamples]:
                self.samples.append({"layer": layer, "case": c})
        return agg

    def note(self, layer, evaluations, nontrivial, outcomes=None, sample=None):
        """Account for work done outside product() (BFS, schedulers, syndrome tables)."""
        L = self.layers.setdefault(layer, {"cases": 0, "evaluations": 0, "nontrivial": 0, "outcomes": {},
                                           "duplicates_dropped": 0})
        L["cases"] += evaluations
        L["evaluations"] += evaluations
        L["nontrivial"] += nontrivial
        for k, c in (outcomes or {}).items():
            L["outcomes"][k] = L["outcomes"].get(k, 0) + c
        if sample is not None:
            self.samples.append({"layer": layer, "case": sample})

    def violate(self, layer, v):
        v["layer"] = layer
        v.setdefault("idx", 0)
        self.violations.append(v)


# --------------------------------------------------------------------------------------- known findings
def load_known():
    finding, fixed = {}, []
    if os.path.exists(KNOWN_FILE):
        for line in open(KNOWN_FILE):
            line = line.strip()
            if line.startswith("finding:"):
                parts = line[len("finding:"):].split()
                d = dict(p.split("=", 1) for p in parts[:2])
                finding[(d["property"], d["key"])] = " ".join(parts[2:])
            elif line.startswith("fixed:"):
                fixed.append(line)
    return finding, fixed


def run_replay(module, case):
    """Execute one stored case (or a stored sequence of cases) through the check's replay executor in a forked child."""
    prop = module.__name__.rsplit(".", 1)[-1].upper()

    def one(c):
        try:
            return module.replay(c)
        except BaseException as e:
            v = impl_exception(prop, e)
            if v is None:
                raise
            return [v]

    def go():
        if isinstance(case, dict) and "__seq__" in case:
            out = []
            for c in case["__seq__"]:
                out = one(c)
            return out
        return one(case)
    return isolated(go)


# --------------------------------------------------------------------------------------- finishing
def finish(ctx, module, coverage_extra):
    """Group violations by key, replay each reported one twice, write replay + evidence, exit code."""
    known, _ = load_known()
    bykey = {}
    for v in sorted(ctx.violations, key=lambda v: (v.get("layer", ""), v.get("idx", 0))):
        bykey.setdefault(v["key"], []).append(v)
    new_keys, known_hit = [], []
    os.makedirs(REPLAY_DIR, exist_ok=True)
    lines = []
    for key, vs in bykey.items():
        first = vs[0]
        if (ctx.prop, key) in known:
            known_hit.append(key)
            lines.append("KNOWN-FINDING: property=%s key=%s %s (%d cases this run; e.g. %s)" % (
                ctx.prop, key, known[(ctx.prop, key)], len(vs), json.dumps(first.get("case"), default=_jd)[:200]))
            continue
        # determinism: the reported case must reproduce the same key twice through the replay executor, each time in a
        # pristine forked child. If it only reproduces after the cases that preceded it in its worker (state carried
        # between calls inside one process), the replay artefact becomes that whole sequence.
        if hasattr(module, "replay") and first.get("case") is not None:
            def reproduces(c):
                return all(key in [x["key"] for x in run_replay(module, c)] for _ in range(2))
            if not reproduces(first["case"]):
                pre = list(first.get("prefix") or [])
                candidates = [{"__seq__": pre + [first["case"]]}] if pre else []
                if first.get("bulk") is not None:
                    candidates += [first["bulk"], {"__seq__": pre + [first["bulk"]]}]
                for cand in candidates:
                    if reproduces(cand):
                        first["case"] = cand
                        first["msg"] += " [reproduces only as part of the sequence of cases that preceded it in its process: state is carried between calls]"
                        break
                else:
                    raise HarnessError("violation %s did not reproduce on replay of %r" % (key, first["case"]))
        rec = {"property": ctx.prop, "key": key, "tier": ctx.tier, "seed": ctx.seed,
               "count_this_run": len(vs), "layer": first.get("layer"), "msg": first["msg"],
               "case": first.get("case"), "observed": first.get("observed"), "expected": first.get("expected"),
               "other_cases": [x.get("case") for x in vs[1:6]]}
        path = os.path.join(REPLAY_DIR, "%s-%s.json" % (ctx.prop, jhash([key, first.get("case")])))
        with open(path, "w") as f:
            json.dump(rec, f, indent=1, default=_jd)
        new_keys.append(key)
        lines.append("VIOLATION property=%s replay=%s" % (ctx.prop, path))
        lines.append("  key=%s cases=%d: %s" % (key, len(vs), first["msg"][:300]))
    ev_n = sum(L["evaluations"] for L in ctx.layers.values())
    nt_n = sum(L["nontrivial"] for L in ctx.layers.values())
    cov = {
        "evaluations": ev_n,
        "distinct_nontrivial": nt_n,
        "rule": getattr(module, "RULE", ""),
        "samples": json.loads(json.dumps(ctx.samples[:12], default=_jd)),
        "exhaustive": not ctx.caps,
        "caps_hit": ctx.caps,
        "layers": ctx.layers,
    }
    cov.update(coverage_extra or {})
    cov.update(ctx.extra)
    ev = {
        "property_id": ctx.prop, "tier": ctx.tier, "seed": ctx.seed, "level": ctx.level,
        "coverage": cov,
        "assumptions": ctx.assumptions,
        "wall_s": round(time.time() - ctx.t0, 2),
        "violations": len(new_keys),
        "violation_keys": new_keys,
        "known_findings_matched": known_hit,
        "repo": REPO,
    }
    check_evidence(ev)
    os.makedirs(EVIDENCE_DIR, exist_ok=True)
    with open(os.path.join(EVIDENCE_DIR, ctx.prop + ".json"), "w") as f:
        json.dump(ev, f, indent=1, default=_jd)
    for l in lines:
        print(l)
    print("%s %s seed=%d: evaluations=%d nontrivial=%d layers=%d violations=%d known=%d wall=%.1fs" % (
        ctx.prop, ctx.tier, ctx.seed, ev_n, nt_n, len(ctx.layers), len(new_keys), len(known_hit), ev["wall_s"]))
    return 1 if new_keys else 0


def check_evidence(ev):
    """Structural self-check mirroring EVIDENCE.schema.json (jsonschema is not in /venv)."""
    for k in ("property_id", "tier", "seed", "level", "coverage", "wall_s"):
        if k not in ev:
            raise HarnessError("evidence lacks " + k)
    c = ev["coverage"]
    if ev["level"] in ("exploration", "fault_enumeration"):
        need = ("evaluations", "distinct_nontrivial", "rule", "samples")
    elif ev["level"] == "model_checking":
        need = ("states", "transitions", "traces_validated_against_impl", "samples")
    else:
        need = ()
    for k in need:
        if k not in c:
            raise HarnessError("coverage lacks " + k)
    if "evaluations" in need and (c["evaluations"] < 1 or c["distinct_nontrivial"] < 2):
        raise HarnessError("vacuous run: evaluations=%r nontrivial=%r" % (c["evaluations"], c["distinct_nontrivial"]))
    if "states" in need and (c["states"] < 1 or c["transitions"] < 1):
        raise HarnessError("vacuous model-checking run")
    if not isinstance(c["samples"], list) or not c["samples"]:
        raise HarnessError("no samples")
