"""Corner classes of COMPUTED INTERMEDIATES (hashes, checksums, fingerprints, coordinates, chain codes, digits).

A defect may be triggered not by an argument but by a value computed on the way ("the HASH160 starts with 0x00", "the
checksum ends in 0xff", "the x coordinate contains a zero byte", "fingerprint and chain code share their first byte").
Such a class has a probability of 2^-8 or less per input, so an alphabet of a few dozen arguments never meets it. This
module builds, by deterministic search with the REFERENCE model only, a set of inputs that covers every class of a
stated, finite family:

  for every named intermediate v (a byte string) of the computation
    zero@j / ff@j      v[j] == 0x00, v[j] == 0xff            for every byte position j
    first=c / last=c   v[0] == c, v[-1] == c                 for every c in 0..255   (ranges of the value at 1/256 grain,
                                                                                     parity, a particular trailing byte)
  for every pair of intermediates (a, b):  a[0] == b[0],  a[-1] == b[-1]

Candidates are generated in a fixed order; a candidate is kept iff it is the first to hit a class (greedy cover). The
search stops when every class is covered or the candidate budget is used up; what is covered is reported (the evidence
states the number of classes and any uncovered remainder - it is a complete enumeration of THAT family, nothing more).
"""


def classes_of(feats, positions=True, firstlast=True, pairs=True):
    """feats: {name: bytes} -> set of class tags hit by this input"""
    out = set()
    names = sorted(feats)
    for n in names:
        v = feats[n]
        if not v:
            continue
        if positions:
            for j, b in enumerate(v):
                if b == 0:
                    out.add(("z", n, j))
                elif b == 255:
                    out.add(("f", n, j))
        if firstlast:
            out.add(("first", n, v[0]))
            out.add(("last", n, v[-1]))
    if pairs:
        for i, a in enumerate(names):
            for b in names[i + 1:]:
                if feats[a] and feats[b]:
                    if feats[a][0] == feats[b][0]:
                        out.add(("eq-first", a, b))
                    if feats[a][-1] == feats[b][-1]:
                        out.add(("eq-last", a, b))
    return out


def universe(shape, positions=True, firstlast=True, pairs=True):
    """shape: {name: length} -> the full set of class tags of the family"""
    out = set()
    names = sorted(shape)
    for n in names:
        if positions:
            for j in range(shape[n]):
                out.add(("z", n, j))
                out.add(("f", n, j))
        if firstlast:
            for c in range(256):
                out.add(("first", n, c))
                out.add(("last", n, c))
    if pairs:
        for i, a in enumerate(names):
            for b in names[i + 1:]:
                out.add(("eq-first", a, b))
                out.add(("eq-last", a, b))
    return out


def zero_runs(name, length, run=2, lo=0):
    """extra family: `run` consecutive zero bytes of intermediate `name` starting at every position >= lo
    -> (universe, classifier)"""
    uni = {("zrun%d" % run, name, j) for j in range(lo, length - run + 1)}
    z = bytes(run)

    def classify(feats):
        v = feats.get(name, b"")
        out = set()
        j = v.find(z, lo)
        while j >= 0:
            out.add(("zrun%d" % run, name, j))
            j = v.find(z, j + 1)
        return out
    return uni, classify


def cover(candidates, shape, budget, positions=True, firstlast=True, pairs=True, impossible=(), extra=()):
    """candidates: iterator of (input, feats). -> (kept inputs [(input, n_new_classes)], stats)
    extra: [(universe set, classifier(feats) -> set)] additional class families"""
    todo = universe(shape, positions, firstlast, pairs) - set(impossible)
    for uni, _ in extra:
        todo |= uni
    # the pair family ("two intermediates share their first / last byte") is OPPORTUNISTIC: some of its classes are structurally
    # impossible for a given computation (child = IL + k with a fixed k never keeps IL's top byte), so completeness is required
    # of the other families only and the search for pairs stops a while after those are complete
    is_pair = lambda t: t[0] in ("eq-first", "eq-last")
    required = len([t for t in todo if not is_pair(t)])
    npairs = len(todo) - required
    kept = []
    tried = 0
    done_at = None
    for inp, feats in candidates:
        if not todo or tried >= budget:
            break
        left_required = sum(1 for t in todo if not is_pair(t)) if done_at is None else 0
        if done_at is None and left_required == 0:
            done_at = tried
        if done_at is not None and tried >= max(4000, 3 * done_at):
            break
        tried += 1
        hit = classes_of(feats, positions, firstlast, pairs)
        for _, cl in extra:
            hit |= cl(feats)
        hit &= todo
        if hit:
            todo -= hit
            kept.append((inp, len(hit)))
    left_pairs = len([t for t in todo if is_pair(t)])
    left_req = len(todo) - left_pairs
    return kept, {"classes": required, "covered": required - left_req, "pair_classes": npairs, "pair_classes_covered": npairs - left_pairs,
                  "candidates_tried": tried, "inputs_kept": len(kept), "uncovered_examples": sorted(map(repr, todo))[:5]}


def scalar_walk(start, secp):
    """(k, point) for k = start, start+1, ... by repeated addition of G (cheap: one group addition per candidate)"""
    k = start
    pt = secp.pub(k)
    while True:
        yield k, pt
        k += 1
        pt = secp.add(pt, secp.G)


def parallel_features(fn, inputs, procs=16, chunk=32):
    """[(input, fn(input))] computed in forked workers (fn must be pure reference code: the parent stays pristine)"""
    import multiprocessing as mp
    inputs = list(inputs)
    with mp.get_context("fork").Pool(procs) as pool:
        feats = pool.map(fn, inputs, chunksize=chunk)
    return list(zip(inputs, feats))


def contains_words(names, words):
    """extra family: the TEXT intermediate `name` contains the word (a field name of the output schema, a prefix ...)"""
    uni = {("word", n, w) for n in names for w in words}

    def classify(feats):
        out = set()
        for n in names:
            v = feats.get(n, b"")
            for w in words:
                if w.encode() in v:
                    out.add(("word", n, w))
        return out
    return uni, classify
