"""E4 - environment-answer seams owned by the harness: the PRF (HMAC-SHA512) and the OS entropy source.

The PRF substitute is a *function* of (key, msg): overrides are keyed by the exact (key, msg) pair, so the implementation
and the reference model can be driven by one and the same substituted function, however often or in whichever order each
side calls it. Only the left 32 bytes (or, for BIP85's XPRV application, the right 32 bytes) are replaced; the other
half stays the real HMAC output.
"""
import contextlib
import hashlib
import hmac as _hmac

from .core import HarnessError
from .ref import hd

N = hd.N


_ORIG_NEW, _ORIG_DIGEST = _hmac.new, _hmac.digest


def real_prf(key, msg):
    return _ORIG_DIGEST(key, msg, "sha512")


def _is_sha512(d):
    if d is None:
        return False
    if isinstance(d, str):
        return d.lower().replace("-", "") == "sha512"
    return d is hashlib.sha512 or getattr(d, "__name__", "") in ("sha512", "openssl_sha512")


class _FakeHMAC:
    """what hmac.new(key, msg, sha512) returns while a PRF substitute is installed (covers a package that calls the
    standard library directly instead of through its own helper)"""
    digest_size, block_size, name = 64, 128, "hmac-sha512"

    def __init__(self, prf, key, msg):
        self._prf, self._key, self._msg = prf, bytes(key), bytes(msg or b"")

    def update(self, more):
        self._msg += bytes(more)

    def copy(self):
        return _FakeHMAC(self._prf, self._key, self._msg)

    def digest(self):
        return self._prf.impl_side(self._key, self._msg)

    def hexdigest(self):
        return self.digest().hex()


_ACTIVE = [None]       # the PRF substitute currently installed (None: every HMAC is the real one)


class TrackedHMAC(_hmac.HMAC):
    """what hmac.new() hands to the code under test from the moment the harness starts (install_tracking() runs BEFORE the
    package is imported): an ordinary HMAC object that also remembers its key and message, so that a PRF substitute installed
    LATER still governs objects created earlier - a module-level pre-keyed object, .copy() / .update() chains. The reference
    models never see this class (they keep the original hmac.new / the C-level hmac.digest saved at import)."""
    __slots__ = ("_vf_key", "_vf_msg", "_vf_dm")

    def __init__(self, key, msg=None, digestmod=""):
        super().__init__(key, msg, digestmod)
        self._vf_key = bytes(key)
        self._vf_msg = bytes(msg) if msg is not None else b""
        self._vf_dm = digestmod

    def update(self, msg):
        super().update(msg)
        self._vf_msg += bytes(msg)

    def copy(self):
        other = super().copy()
        other._vf_key, other._vf_msg, other._vf_dm = self._vf_key, self._vf_msg, self._vf_dm
        return other

    def digest(self):
        prf = _ACTIVE[0]
        if prf is not None and _is_sha512(self._vf_dm):
            return prf.impl_side(self._vf_key, self._vf_msg)
        return super().digest()

    def hexdigest(self):
        return self.digest().hex()


def _tracked_new(key, msg=None, digestmod=""):
    return TrackedHMAC(key, msg, digestmod)


def _tracked_digest(key, msg, digest):
    prf = _ACTIVE[0]
    if prf is not None and _is_sha512(digest):
        return prf.impl_side(bytes(key), bytes(msg))
    return _ORIG_DIGEST(key, msg, digest)


def install_tracking():
    """permanent, installed before the package under test is imported (so `from hmac import new` inside it is covered too)"""
    _hmac.new, _hmac.digest = _tracked_new, _tracked_digest


class PRF:
    def __init__(self, overrides=None):
        # overrides: {(key, msg): ("L"|"R", int)}
        self.overrides = dict(overrides or {})
        self.calls = []       # every call the implementation made: (key, msg)
        self.hits = 0

    def __call__(self, key, msg):
        out = real_prf(key, msg)
        o = self.overrides.get((bytes(key), bytes(msg)))
        if o is not None:
            self.hits += 1
            half, val = o
            v = val.to_bytes(32, "big")
            out = v + out[32:] if half == "L" else out[:32] + v
        return out

    def impl_side(self, key, msg):
        self.calls.append((bytes(key), bytes(msg)))
        return self(key, msg)

    def distinct_calls(self):
        seen, out = set(), []
        for c in self.calls:
            if c not in seen:
                seen.add(c)
                out.append(c)
        return out


@contextlib.contextmanager
def installed(prf):
    """Install `prf` on every attribute through which the package reaches HMAC-SHA512, and in the reference."""
    import btc_hd_wallet.helper as H
    import btc_hd_wallet.bip32 as B32
    import btc_hd_wallet.bip85 as B85
    mods = [m for m in (H, B32, B85) if hasattr(m, "hmac_sha512")]
    saved = [(m, m.hmac_sha512) for m in mods]

    def stub(key, msg):
        return prf.impl_side(key, msg)
    for m in mods:
        m.hmac_sha512 = stub

    # second line: the standard-library entry points themselves (the harness and the reference use the saved originals)
    def new(key, msg=None, digestmod=None):
        if _is_sha512(digestmod):
            return _FakeHMAC(prf, key, msg)
        return _ORIG_NEW(key, msg, digestmod)

    def digest(key, msg, digest):
        if _is_sha512(digest):
            return prf.impl_side(bytes(key), bytes(msg))
        return _ORIG_DIGEST(key, msg, digest)
    cur_new, cur_digest = _hmac.new, _hmac.digest
    if cur_new is _ORIG_NEW:                 # tracking not installed (stand-alone use): fall back to the temporary stand-ins
        _hmac.new, _hmac.digest = new, digest
    old = hd.PRF_HOOK[0]
    hd.PRF_HOOK[0] = prf
    prev = _ACTIVE[0]
    _ACTIVE[0] = prf
    try:
        yield prf
    finally:
        _ACTIVE[0] = prev
        _hmac.new, _hmac.digest = cur_new, cur_digest
        for m, f in saved:
            m.hmac_sha512 = f
        hd.PRF_HOOK[0] = old


def record_ref(fn):
    """Run a reference computation with tracing; -> (result or exception, {(key,msg): k_par})."""
    hd.TRACE[0] = []
    try:
        try:
            res = ("ok", fn())
        except ValueError as e:
            res = ("exc", str(e))
        table = {}
        for key, msg, kpar in hd.TRACE[0]:
            table[(key, msg)] = kpar
        return res, table
    finally:
        hd.TRACE[0] = None


def resolve(spec, kpar):
    """spec -> ("L"|"R", int). Relative specs are computed from the parent scalar of that call."""
    t, v = spec
    if t == "il":
        return ("L", v)
    if t == "right":
        return ("R", v)
    if t == "child":          # IL such that (IL + k_par) mod n == v   (v == 0: the zero key / point at infinity)
        if kpar is None:
            return None
        return ("L", (v - kpar) % N)
    if t == "sum":            # IL = v - k_par as an integer (wrap-around cases); must fit 256 bits
        if kpar is None:
            return None
        il = v - kpar
        return ("L", il) if 0 <= il < 2**256 else None
    raise ValueError(spec)
