"""E3 - stateless, preemption-bounded schedule explorer for REAL threads.

Every harness thread is a real threading.Thread whose Python execution is traced with sys.settrace; a *scheduling point*
is a `line` event in a frame whose code object comes from one of the watched package files. One semaphore per thread
implements a baton: exactly one thread runs at any time and the schedule is fully determined by a list of choices
(index into the canonically ordered enabled set at each point: the running thread first if still enabled, then ascending ids).
Third-party code (ecdsa, hashlib, hmac) executes atomically between two package lines, so its internal locks are never
held across a switch. Exploration = iterative preemption bounding (switching away from a thread that could continue
costs 1; a switch forced by thread completion costs 0), depth-first over choice prefixes, executions run to completion.
"""
import _thread
import os
import sys
import threading

from .core import HarnessError

import weakref

_RAW_LOCK = _thread.allocate_lock
_ORIG_FACTORIES = (threading.Lock, threading.RLock)
_ALL_RLOCKS = weakref.WeakSet()
_ALL_LOCKS = weakref.WeakSet()     # every CoopLock ever made (orphaned ones are re-initialised after a deadlocked execution)


class _DeadlockAbort(BaseException):
    """raised inside every waiting harness thread once a deadlock has been recorded, so that the threads unwind (and
    `with lock:` blocks release) instead of staying parked with locks held"""


class CoopLock:
    """Drop-in for threading.Lock. Outside a scheduled harness thread it is an ordinary lock. Inside one, an acquire that
    cannot succeed is a BLOCKING POINT: the thread leaves the enabled set until the lock is free again, and the scheduler
    hands the baton to another thread (or reports a deadlock when nobody can run)."""

    def __init__(self):
        self._l = _RAW_LOCK()
        _ALL_LOCKS.add(self)

    def acquire(self, blocking=True, timeout=-1):
        ent = _ACTIVE.get(_thread.get_ident())
        if ent is None:
            return self._l.acquire(blocking, timeout)
        run, tid = ent
        while True:
            if self._l.acquire(False):
                return True
            if not blocking:
                return False
            # a wait WITH a timeout can end in two ways; model time advances only when nothing else can happen: the timeout
            # fires exactly when every unfinished thread waits (instead of calling that a deadlock)
            if run.block(tid, self, can_timeout=(timeout is not None and timeout >= 0)) == "timeout":
                return False

    __enter__ = acquire

    def release(self):
        self._l.release()

    def __exit__(self, *a):
        self.release()

    def locked(self):
        return self._l.locked()

    def _at_fork_reinit(self):
        self._l = _RAW_LOCK()


class CoopRLock:
    """Drop-in for threading.RLock with the same blocking-point behaviour as CoopLock."""

    def __init__(self):
        self._l = CoopLock()
        self._owner = None
        self._count = 0
        _ALL_RLOCKS.add(self)

    def acquire(self, blocking=True, timeout=-1):
        me = _thread.get_ident()
        if self._owner == me:
            self._count += 1
            return True
        ok = self._l.acquire(blocking, timeout)
        if ok:
            self._owner, self._count = me, 1
        return ok

    __enter__ = acquire

    def release(self):
        if self._owner != _thread.get_ident():
            raise RuntimeError("cannot release un-acquired lock")
        self._count -= 1
        if self._count == 0:
            self._owner = None
            self._l.release()

    def __exit__(self, *a):
        self.release()

    def locked(self):
        return self._l.locked()

    # protocol used by threading.Condition
    def _is_owned(self):
        return self._owner == _thread.get_ident()

    def _release_save(self):
        state = (self._count, self._owner)
        self._count, self._owner = 0, None
        self._l.release()
        return state

    def _acquire_restore(self, state):
        self._l.acquire()
        self._count, self._owner = state

    def _at_fork_reinit(self):
        self._l = CoopLock()
        self._owner, self._count = None, 0


def install_coop_locks():
    """threading.Lock / threading.RLock create cooperative locks from now on (call before the package is imported, so
    that module-level locks of the package are covered too). threading._allocate_lock is what Condition / Event /
    Semaphore / queue.Queue use for their waiter locks, so those primitives become cooperative as well."""
    threading.Lock, threading.RLock = CoopLock, CoopRLock
    threading._allocate_lock = CoopLock


class _Baton:
    """binary semaphore on a raw lock (independent of the patched threading.Lock)"""

    def __init__(self):
        self._l = _RAW_LOCK()
        self._l.acquire()

    def release(self):
        self._l.release()

    def acquire(self, timeout=None):
        return self._l.acquire(True, -1 if timeout is None else timeout)

WATCH_DIR = None


class Execution:
    def __init__(self):
        self.points = []      # (running tid, enabled tuple, choice index, running_still_enabled, location)
        self.results = {}     # tid -> ("ok", value) | ("exc", text)
        self.deadlock = False


_ACTIVE = {}          # thread ident -> (run, tid) for instruction-granular runs
_MON = {"on": False}


def _instr_cb(code, offset):
    ent = _ACTIVE.get(_thread.get_ident())
    if ent is None:
        return None
    run, tid = ent
    if not run.instr:
        return None
    if code.co_filename not in run.watched:
        return sys.monitoring.DISABLE
    run.point(tid, (os.path.basename(code.co_filename), code.co_name, offset))
    return None


def _monitoring_on():
    if not _MON["on"]:
        m = sys.monitoring
        m.use_tool_id(m.PROFILER_ID, "vf-sched")
        m.register_callback(m.PROFILER_ID, m.events.INSTRUCTION, _instr_cb)
        m.set_events(m.PROFILER_ID, m.events.INSTRUCTION)
        _MON["on"] = True
    else:
        sys.monitoring.restart_events()


class _Run:
    def __init__(self, bodies, watched, prefix, max_points, instr=False):
        self.instr = instr
        self.bodies, self.watched, self.prefix, self.max_points = bodies, watched, list(prefix), max_points
        self.n = len(bodies)
        self.sems = [_Baton() for _ in bodies]
        self.done_sem = _Baton()
        self.finished = [False] * self.n
        self.blocked = {}
        self.can_timeout = set()
        self.timed_out = set()
        self.x = Execution()
        self.current = None
        self.error = None

    # ---- scheduling decision; called by the running thread `tid` (still_enabled tells whether it could continue)
    def decide(self, tid, still_enabled, loc):
        if self.x.deadlock:
            # unwinding phase after a recorded deadlock: no more scheduling points; run the remaining threads one by one
            if still_enabled:
                return tid
            rest = [t for t in range(self.n) if not self.finished[t]]
            return rest[0] if rest else None
        enabled = [t for t in range(self.n) if not self.finished[t] and (t not in self.blocked or not self.blocked[t].locked())]
        if not enabled:
            waiting = sorted(t for t in self.blocked if not self.finished[t] and t in self.can_timeout)
            if waiting:
                # everybody waits, somebody with a timeout: the earliest such wait times out (ascending thread id)
                t = waiting[0]
                self.timed_out.add(t)
                self.x.points.append((tid, (t,), 0, False, ("<timeout-fires>", t)))
                return t
            if any(not f for f in self.finished):
                self.x.deadlock = True       # unfinished threads exist but all of them wait for a held lock
                self.x.deadlocked = sorted(self.blocked)
                return "deadlock"
            return None
        if still_enabled:
            order = [tid] + [t for t in enabled if t != tid]
        else:
            order = enabled
        i = len(self.x.points)
        if i >= self.max_points:
            self.error = "more than %d scheduling points" % self.max_points
            choice = 0
        elif i < len(self.prefix):
            choice = self.prefix[i]
            if choice >= len(order):
                self.error = "replayed prefix diverged at point %d (choice %d of %d enabled)" % (i, choice, len(order))
                choice = 0
        else:
            choice = 0
        self.x.points.append((tid, tuple(order), choice, still_enabled, loc))
        return order[choice]

    def point(self, tid, loc):
        nxt = self.decide(tid, True, loc)
        if nxt != tid:
            self.current = nxt
            self.sems[nxt].release()
            self.sems[tid].acquire()

    def block(self, tid, lock, can_timeout=False):
        """called by a harness thread whose lock acquisition cannot succeed now; -> None (retry) | "timeout" """
        self.blocked[tid] = lock
        if can_timeout:
            self.can_timeout.add(tid)
        nxt = self.decide(tid, False, ("<blocked-on-lock>", tid))
        if nxt == "deadlock":
            raise _DeadlockAbort()           # nobody can run: this thread unwinds first, the others follow
        if nxt != tid:
            self.current = nxt
            self.sems[nxt].release()
            self.sems[tid].acquire()
        if self.x.deadlock:
            raise _DeadlockAbort()
        self.blocked.pop(tid, None)
        self.can_timeout.discard(tid)
        if tid in self.timed_out:
            self.timed_out.discard(tid)
            return "timeout"
        return None

    def thread_main(self, tid):
        self.sems[tid].acquire()
        watched = self.watched

        def local(frame, event, arg):
            if event == "line":
                self.point(tid, (os.path.basename(frame.f_code.co_filename), frame.f_lineno))
            return local

        def glob(frame, event, arg):
            if event == "call" and frame.f_code.co_filename in watched:
                return local
            return None

        try:
            _ACTIVE[_thread.get_ident()] = (self, tid)
            if not self.instr:
                sys.settrace(glob)
            try:
                res = ("ok", self.bodies[tid]())
            except _DeadlockAbort:
                res = ("exc", "DEADLOCK: thread %d waits for a lock that is never released" % tid)
            except BaseException as e:
                res = ("exc", "%s: %s" % (type(e).__name__, str(e)[:200]))
        finally:
            _ACTIVE.pop(_thread.get_ident(), None)
            if not self.instr:
                sys.settrace(None)
        self.x.results[tid] = res
        self.finished[tid] = True
        nxt = self.decide(tid, False, ("<finished>", tid))
        if nxt == "deadlock":
            nxt = self.decide(tid, False, None)       # the waiting threads unwind one after the other
        if nxt is None:
            self.done_sem.release()
        else:
            self.current = nxt
            self.sems[nxt].release()

    def go(self):
        if self.instr:
            _monitoring_on()
        threads = [threading.Thread(target=self.thread_main, args=(t,), daemon=True) for t in range(self.n)]
        for t in threads:
            t.start()
        # initial decision: which thread starts (choice at point 0, no thread running => costs nothing)
        first = self.decide(-1, False, ("<start>", 0))
        self.current = first
        self.sems[first].release()
        if not self.done_sem.acquire(timeout=120):
            raise HarnessError("schedule did not finish within 120 s (a thread blocks on something the scheduler does not own): prefix %r" % (self.prefix,))
        for t in threads:
            t.join(timeout=10)
        # every harness thread has ended: a cooperative lock that is still held is an orphan (acquired without
        # `with`/finally by a thread that raised or was unwound after a deadlock); the next execution in this process
        # must not inherit it
        for l in list(_ALL_RLOCKS):
            if l._owner is not None:
                l._owner, l._count = None, 0
        for l in list(_ALL_LOCKS):
            if l.locked():
                l._l = _RAW_LOCK()
        if self.error:
            raise HarnessError(self.error)
        return self.x


def watched_files(names):
    import btc_hd_wallet
    d = os.path.dirname(os.path.abspath(btc_hd_wallet.__file__))
    out = set()
    for n in names:
        p = os.path.join(d, n)
        if not os.path.exists(p):
            raise HarnessError("watched file %s does not exist (package was restructured): update the scheduler's file list" % p)
        out.add(p)
        out.add(os.path.realpath(p))
    return out


def all_package_files():
    import btc_hd_wallet
    d = os.path.dirname(os.path.abspath(btc_hd_wallet.__file__))
    return [f for f in os.listdir(d) if f.endswith(".py") and f not in ("__main__.py",)]


def run_schedule(make_bodies, watched, prefix, max_points=400000, instr=False):
    """make_bodies() builds fresh shared objects and returns (bodies, finalize) ; finalize(results) -> observation.
    instr=True: scheduling points are bytecode INSTRUCTION events (sys.monitoring) in the watched files instead of lines."""
    bodies, finalize = make_bodies()
    r = _Run(bodies, watched, prefix, max_points, instr)
    x = r.go()
    x.observation = finalize(x.results)
    return x


def preemptions(points, upto):
    c = 0
    for (tid, order, choice, still, loc) in points[:upto]:
        if still and choice != 0:
            c += 1
    return c


def branches(x, start, bound):
    """all (i, alt) deviations from execution x at points >= start that stay within the preemption bound"""
    out = []
    used = 0
    for i, (tid, order, choice, still, loc) in enumerate(x.points):
        if i >= start and len(order) >= 2:
            cost = used + (1 if still else 0)
            if cost <= bound:
                for alt in range(1, len(order)):
                    out.append((i, alt))
        if still and choice != 0:
            used += 1
    return out


def one_execution(make_bodies, watched, pre, bound, check, instr, start):
    """run ONE schedule and boil it down to what the explorer needs (small, picklable)"""
    x = run_schedule(make_bodies, watched, pre, instr=instr)
    return {"choices": [p[2] for p in x.points], "locs": None, "branches": branches(x, start, bound), "obs": x.observation,
            "viols": check(x), "n": len(x.points)}


def explore(make_bodies, watched, bound, check, prefix=(), stats=None, max_execs=None, instr=False, fork_each=True):
    """depth-first exploration below `prefix`; check(x) -> list of violations.
    fork_each: every execution runs in a freshly forked child, so that it is a function of its choice list alone even when
    the code under test keeps state at module/class level (a cache warmed by an earlier execution would otherwise change
    the sequence of scheduling points and make recorded prefixes meaningless)."""
    from .core import isolated
    if stats is None:
        stats = {"executions": 0, "points_max": 0, "outcomes": {}, "violations": []}
    stack = [list(prefix)]
    while stack:
        pre = stack.pop()
        if max_execs is not None and stats["executions"] >= max_execs:
            stats["capped"] = True
            break
        if fork_each:
            r = isolated(one_execution, make_bodies, watched, pre, bound, check, instr, len(pre))
        else:
            r = one_execution(make_bodies, watched, pre, bound, check, instr, len(pre))
        stats["executions"] += 1
        stats["points_max"] = max(stats["points_max"], r["n"])
        choices = r["choices"]
        key = repr(r["obs"])
        stats["outcomes"][key] = stats["outcomes"].get(key, 0) + 1
        for v in r["viols"]:
            v["schedule"] = choices[:_last_nonzero(choices) + 1]
            stats["violations"].append(v)
        for i, alt in r["branches"]:
            stack.append(choices[:i] + [alt])
    return stats


def _last_nonzero(choices):
    last = -1
    for i, c in enumerate(choices):
        if c:
            last = i
    return last
