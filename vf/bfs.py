"""E2 - explicit-state breadth-first search over the REAL transition functions.

A state is identified by the history (operation list) that reaches it; live objects are never copied: to take a
transition the history is replayed on freshly built real objects and one more operation is applied. The model supplies

    ops(hist)            -> operations enabled after `hist` (JSON-able values, simplest first)
    run(hist)            -> {"canon": hashable/JSON-able canonical form of the state reached,
                             "viols": [V(...)] for the LAST operation of hist (earlier ones were judged one level up),
                             "label": outcome class of the last operation}

Histories whose canonical forms are equal are merged: only the first is extended (the model states why that is sound).
`transitions` counts executed (history, op) pairs; each is one run of the implementation compared with the reference,
so traces_validated_against_impl == transitions.
"""
from .core import jhash, R, HarnessError, isolated


def bfs(ctx, layer, model, depth, chunk=4, isolate=True):
    name = "%s/%s" % (ctx.prop, layer)

    def execute(case):
        # isolate: every history runs in a forked child, so package-level state is pristine at its start
        r = isolated(model.run, case["hist"]) if isolate else model.run(case["hist"])
        for v in r["viols"]:
            v.setdefault("case", {"hist": case["hist"], "layer": layer})
        return R(r.get("label", "ok"), viols=r["viols"], extra={"h": case["hist"], "c": jhash(r["canon"])})

    frontier = [[]]
    seen = {}
    # the parent process never executes implementation code itself: every child forked from it starts pristine
    root = isolated(model.run, []) if isolate else model.run([])
    seen[jhash(root["canon"])] = []
    states, transitions, dedup, maxd = 1, 0, 0, 0
    samples = []
    for d in range(1, depth + 1):
        cases = []
        for h in frontier:
            for op in model.ops(h):
                cases.append({"hist": h + [op]})
        if not cases:
            break
        agg = ctx.product(layer, cases, execute, chunk=chunk, nsamples=1)
        transitions += len(cases)
        nxt = []
        for x in sorted(agg["x"], key=lambda x: jhash(x["h"])):
            if x["c"] in seen:
                dedup += 1
                continue
            seen[x["c"]] = x["h"]
            states += 1
            nxt.append(x["h"])
        # keep a deterministic, simplest-first order
        order = {jhash(c["hist"]): i for i, c in enumerate(cases)}
        nxt.sort(key=lambda h: order[jhash(h)])
        if nxt:
            maxd = d
            samples.append(nxt[len(nxt) // 2])
        frontier = nxt
    st = ctx.extra.setdefault("bfs", {})
    st[layer] = {"states": states, "transitions": transitions, "dedup_hits": dedup, "max_depth": maxd, "depth_bound": depth}
    ctx.extra["states"] = ctx.extra.get("states", 0) + states
    ctx.extra["transitions"] = ctx.extra.get("transitions", 0) + transitions
    ctx.extra["traces_validated_against_impl"] = ctx.extra.get("traces_validated_against_impl", 0) + transitions
    ctx.extra["max_depth"] = max(ctx.extra.get("max_depth", 0), maxd)
    for h in samples[-2:]:
        ctx.samples.append({"layer": layer, "history": h})
    return st[layer]


def long_histories(ctx, layer, model, rotations=4, rounds=2, chunk=4, ops=None):
    """Depth extension beyond the BFS bound: for `rotations` rotations of the model's whole operation alphabet, the
    cyclic history (alphabet repeated `rounds` times) is executed and EVERY prefix of it is judged (each prefix is one
    run of the implementation compared with the reference). This is a complete enumeration of a small, stated set of long
    histories (not a search): it reaches defects that need many earlier calls (bounded caches, counters, eviction)."""
    alphabet = list(ops if ops is not None else model.ops([]))
    n = len(alphabet)
    step = max(1, n // rotations)
    cases = []
    for r in list(range(0, n, step))[:rotations]:
        seq = (alphabet[r:] + alphabet[:r]) * rounds
        for L in range(1, len(seq) + 1):
            cases.append({"hist": seq[:L]})
    rev = list(reversed(alphabet)) * rounds
    cases += [{"hist": rev[:L]} for L in range(1, len(rev) + 1)]

    def execute(case):
        r = isolated(model.run, case["hist"])
        for v in r["viols"]:
            v.setdefault("case", {"hist": case["hist"], "layer": layer})
        return R(r.get("label", "ok"), viols=r["viols"])
    agg = ctx.product(layer, cases, execute, chunk=chunk, nsamples=1)
    ctx.extra["transitions"] = ctx.extra.get("transitions", 0) + len(cases)
    ctx.extra["traces_validated_against_impl"] = ctx.extra.get("traces_validated_against_impl", 0) + len(cases)
    ctx.extra["max_depth"] = max(ctx.extra.get("max_depth", 0), n * rounds)
    ctx.extra.setdefault("long_histories", {})[layer] = {"histories": rotations + 1, "length": n * rounds, "prefixes_judged": len(cases)}
    return agg


class PureCalls:
    """Model for functions that ought to be PURE: ops = indexes into a small list of inputs that share parts with each
    other; a history = a sequence of calls in one process; the last call's result must be the reference result for its
    own input (so any memo keyed by only a part of the input, any scratch state surviving a call, shows up).
    judge(i) -> list of violations for input i, evaluated on the implementation."""

    def __init__(self, n_inputs, judge, key_prefix):
        self.n, self.judge, self.key_prefix = n_inputs, judge, key_prefix

    def ops(self, hist):
        return list(range(self.n))

    def run(self, hist):
        viols, label = [], "init"
        for n, i in enumerate(hist):
            vs = self.judge(i)
            if n == len(hist) - 1:
                for v in vs:
                    v["key"] = v["key"] + ":history"
                    v["msg"] = "after calls on inputs %r in the same process: %s" % (hist[:-1], v["msg"])
                viols, label = vs, ("violation" if vs else "pure-call-ok")
        return {"canon": hist, "viols": viols, "label": label}


SIZES = (1, 2, 3, 4, 5, 8, 9, 16, 17, 32, 33, 64, 65, 128, 129)


def eviction_probe(ctx, layer, model, op_of, sizes=SIZES, chunk=2):
    """Bounded caches / ring buffers / pools: for every capacity R in `sizes` the history
        op(0), op(1), ..., op(R), op(0)        and        op(0), ..., op(R), op(1)
    is executed (R distinct other requests between two identical ones) and the LAST request is judged. op_of(i) maps an
    integer to a model operation; the model judges the last operation of a history (as in bfs())."""
    cases = []
    for R in sizes:
        base = [op_of(i) for i in range(0, R + 1)]
        cases.append({"hist": base + [op_of(0)]})
        cases.append({"hist": base + [op_of(1)]})
        cases.append({"hist": base + [op_of(0), op_of(0)]})      # a failed lookup must not be remembered either

    def execute(case):
        r = isolated(model.run, case["hist"])
        for v in r["viols"]:
            v.setdefault("case", {"hist": case["hist"], "layer": layer})
        return R(r.get("label", "ok"), viols=r["viols"])
    from .core import R
    agg = ctx.product(layer, cases, execute, chunk=chunk, nsamples=1)
    ctx.extra["transitions"] = ctx.extra.get("transitions", 0) + len(cases)
    ctx.extra["traces_validated_against_impl"] = ctx.extra.get("traces_validated_against_impl", 0) + len(cases)
    ctx.extra["max_depth"] = max(ctx.extra.get("max_depth", 0), max(sizes) + 2)
    ctx.extra.setdefault("eviction_probes", {})[layer] = {"capacities": list(sizes), "histories": len(cases)}
    return agg
