"""E2 - explicit-state breadth-first search over the REAL transition functions.

A state is identified by the history (operation list) that reaches it; live objects are never copied: to take a
transition the history is replayed on freshly built real objects and one more operation is applied. The model supplies

    ops(hist)            -> operations enabled after `hist` (JSON-able values, simplest first)
    run(hist)            -> {"canon": hashable/JSON-able canonical form of the state reached,
                             "viols": [V(...)] for the LAST operation of hist (earlier ones were judged one level up),
                             "label": outcome class of the last operation}

Histories whose canonical forms are equal are merged: only the first is extended (the model states why that is sound).
`transitions` counts executed (history, op) pairs; each is one run of the implementation compared with the reference,
so traces_validated_against_impl == transitions.
"""
from .core import jhash, R, HarnessError, isolated


def bfs(ctx, layer, model, depth, chunk=4, isolate=True):
    name = "%s/%s" % (ctx.prop, layer)

    def execute(case):
        # isolate: every history runs in a forked child, so package-level state is pristine at its start
        r = isolated(model.run, case["hist"]) if isolate else model.run(case["hist"])
        for v in r["viols"]:
            v.setdefault("case", {"hist": case["hist"], "layer": layer})
        return R(r.get("label", "ok"), viols=r["viols"], extra={"h": case["hist"], "c": jhash(r["canon"])})

    frontier = [[]]
    seen = {}
    # the parent process never executes implementation code itself: every child forked from it starts pristine
    root = isolated(model.run, []) if isolate else model.run([])
    seen[jhash(root["canon"])] = []
    states, transitions, dedup, maxd = 1, 0, 0, 0
    samples = []
    for d in range(1, depth + 1):
        cases = []
        for h in frontier:
            for op in model.ops(h):
                cases.append({"hist": h + [op]})
        if not cases:
            break
        agg = ctx.product(layer, cases, execute, chunk=chunk, nsamples=1)
        transitions += len(cases)
        nxt = []
        for x in sorted(agg["x"], key=lambda x: jhash(x["h"])):
            if x["c"] in seen:
                dedup += 1
                continue
            seen[x["c"]] = x["h"]
            states += 1
            nxt.append(x["h"])
        # keep a deterministic, simplest-first order
        order = {jhash(c["hist"]): i for i, c in enumerate(cases)}
        nxt.sort(key=lambda h: order[jhash(h)])
        if nxt:
            maxd = d
            samples.append(nxt[len(nxt) // 2])
        frontier = nxt
    st = ctx.extra.setdefault("bfs", {})
    st[layer] = {"states": states, "transitions": transitions, "dedup_hits": dedup, "max_depth": maxd, "depth_bound": depth}
    ctx.extra["states"] = ctx.extra.get("states", 0) + states
    ctx.extra["transitions"] = ctx.extra.get("transitions", 0) + transitions
    ctx.extra["traces_validated_against_impl"] = ctx.extra.get("traces_validated_against_impl", 0) + transitions
    ctx.extra["max_depth"] = max(ctx.extra.get("max_depth", 0), maxd)
    for h in samples[-2:]:
        ctx.samples.append({"layer": layer, "history": h})
    return st[layer]
