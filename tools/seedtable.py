#!/venv/bin/python
"""Prints a markdown table of /verif/seeded/*/meta.json (what each seeded change needs, which checks caught it)."""
import json, os, glob
rows = []
for d in sorted(glob.glob("/verif/seeded/*/")):
    try:
        m = json.load(open(d + "meta.json"))
    except Exception:
        continue
    name = os.path.basename(d.rstrip("/"))
    ch = m.get("verification", {}).get("checks", {})
    verdicts = ", ".join("%s %s: %s" % (c, v.get("tier", "quick"), v["verdict"]) for c, v in sorted(ch.items()))
    keys = "; ".join(sorted({k.split(" cases=")[0].replace("key=", "") for v in ch.values() for k in v.get("keys", [])[:2]}))[:200]
    rows.append("| %s | %s | %s | %s | %s |" % (name, m.get("property"), (m.get("summary", "") or "")[:170].replace("|", "/").replace("\n", " "),
                                               (m.get("needs", "") or "")[:150].replace("|", "/").replace("\n", " "), verdicts + (" — " + keys if keys else "")))
print("| id | property | change | needs | result |\n|---|---|---|---|---|")
print("\n".join(rows))
