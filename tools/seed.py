#!/venv/bin/python
"""Confirm a seeded change produced by a sub-agent and run checks against it.
usage: tools/seed.py <srcdir> <PID> [--keep-as NAME] [--tier quick|thorough] [--checks C01,C02]
  srcdir holds patch.diff, demo.py, meta.json. Steps (all in a scratch worktree under /tmp, removed afterwards):
  1. demo.py passes on the unchanged tree   2. patch applies   3. test-suite still passes (124)   4. demo.py fails
  5. each check is run with VERIF_REPO=<patched worktree>; exit 1 = detected
  With --keep-as the artefacts are stored as /verif/seeded/NAME/ (meta.json extended with what was run)."""
import json, os, shutil, subprocess, sys, tempfile, time

def sh(cmd, cwd=None, env=None, timeout=3600):
    r = subprocess.run(cmd, cwd=cwd, env=env, capture_output=True, text=True, timeout=timeout)
    return r.returncode, r.stdout, r.stderr

def main():
    a = sys.argv[1:]
    src, pid = os.path.abspath(a[0]), a[1]
    keep = a[a.index("--keep-as") + 1] if "--keep-as" in a else None
    tier = a[a.index("--tier") + 1] if "--tier" in a else "quick"
    checks = a[a.index("--checks") + 1].split(",") if "--checks" in a else [pid]
    tmp = tempfile.mkdtemp(prefix="seedchk.", dir="/tmp")
    wt = os.path.join(tmp, "repo")
    rec = {"confirmed": False, "steps": {}}
    try:
        subprocess.check_call(["git", "-C", "/repo", "worktree", "add", "--detach", "-q", wt, "HEAD"])
        env = dict(os.environ, PYTHONDONTWRITEBYTECODE="1", PYTHONPATH=wt)
        shutil.copy(os.path.join(src, "demo.py"), os.path.join(tmp, "demo.py"))
        demo = ["/venv/bin/python", "-B", os.path.join(tmp, "demo.py")]
        rc, o, e = sh(demo, cwd=wt, env=env, timeout=900)
        rec["steps"]["demo_on_clean"] = rc
        if rc != 0:
            print("demo fails on the unchanged tree (rc=%d): %s" % (rc, (o + e)[-300:]))
        rc, o, e = sh(["git", "-C", wt, "apply", "--whitespace=nowarn", os.path.join(src, "patch.diff")])
        rec["steps"]["apply"] = rc
        if rc != 0:
            print("patch does not apply:", e[-300:]); return finish(rec, keep, src, pid, tmp, wt)
        rc, o, e = sh(["/venv/bin/python", "-m", "pytest", "-q", "-p", "no:cacheprovider", "-n", "8", "--deselect",
                       "tests/test_parser.py::TestArgumentParsing::test_invalid_file_argument"], cwd=wt, env=env)
        last = (o.strip().splitlines() or [""])[-1]
        rec["steps"]["tests"] = last
        print("tests:", last)
        rc2, o, e = sh(demo, cwd=wt, env=env, timeout=900)
        rec["steps"]["demo_on_patched"] = rc2
        print("demo on patched rc=%d: %s" % (rc2, (o + e).strip()[-200:].replace("\n", " | ")))
        rec["confirmed"] = (rec["steps"]["demo_on_clean"] == 0 and rc == 0 and "passed" in last and "failed" not in last and rc2 != 0)
        rec["checks"] = {}
        for c in checks:
            t0 = time.time()
            rc, o, e = sh([os.environ.get("VERIF_RUN", "/verif/run"), c, tier], env=dict(os.environ, VERIF_REPO=wt))
            keys = [l.strip()[:260] for l in o.splitlines() if l.startswith("  key=")]
            verdict = {1: "DETECTED", 0: "MISSED"}.get(rc, "HARNESS-ERROR")
            rec["checks"][c] = {"tier": tier, "exit": rc, "verdict": verdict, "keys": keys[:6], "wall_s": round(time.time() - t0, 1)}
            print("%s %s exit=%d %s" % (c, tier, rc, verdict))
            for k in keys[:4]:
                print("    ", k[:200])
            if rc == 2:
                print(e[-1200:])
    finally:
        return finish(rec, keep, src, pid, tmp, wt)

def finish(rec, keep, src, pid, tmp, wt):
    subprocess.run(["git", "-C", "/repo", "worktree", "remove", "--force", wt], capture_output=True)
    shutil.rmtree(tmp, ignore_errors=True)
    subprocess.run(["git", "-C", "/repo", "worktree", "prune"])
    print("CONFIRMED" if rec["confirmed"] else "NOT CONFIRMED")
    if keep and rec["confirmed"]:
        dst = os.path.join("/verif/seeded", keep)
        os.makedirs(dst, exist_ok=True)
        for f in ("patch.diff", "demo.py"):
            if os.path.abspath(os.path.join(src, f)) != os.path.abspath(os.path.join(dst, f)):
                shutil.copy(os.path.join(src, f), os.path.join(dst, f))
        try:
            meta = json.load(open(os.path.join(src, "meta.json")))
        except Exception:
            meta = {}
        meta.setdefault("property", pid)
        old = {}
        if os.path.exists(os.path.join(dst, "meta.json")):
            try:
                old = json.load(open(os.path.join(dst, "meta.json"))).get("verification", {}).get("checks", {})
            except Exception:
                old = {}
        old.update(rec.get("checks", {}))
        meta["verification"] = {"what_i_ran": "tools/seed.py: demo on clean tree (rc 0), git apply, 124-test suite on patched tree, demo on patched tree (rc!=0), then the listed checks with VERIF_REPO=<patched scratch worktree>",
                                "steps": rec["steps"], "checks": old, "repo_head": subprocess.run(["git", "-C", "/repo", "log", "--format=%h", "-1"], capture_output=True, text=True).stdout.strip()}
        json.dump(meta, open(os.path.join(dst, "meta.json"), "w"), indent=1)
    return 0

sys.exit(main())
