#!/bin/sh
# usage: tools/runall.sh quick|thorough [seed]   -- runs every registered check, prints one line each
tier=${1:-quick}; seed=${2:-0}
cd /verif
for c in $(jq -r '.checks[].property_id' MANIFEST.json); do
  s=$(date +%s)
  out=$(VERIF_SEED=$seed timeout 7200 ./run $c $tier 2>&1); rc=$?
  e=$(date +%s)
  echo "$c rc=$rc $((e-s))s $(echo "$out" | tail -1 | cut -c1-150)"
  echo "$out" | grep -E "^(VIOLATION|HARNESS)" | head -3
done
