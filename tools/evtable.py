#!/venv/bin/python
"""Markdown table of what the last quick / thorough runs covered (from the evidence files)."""
import json, os
print("| id | level | quick: evaluations (states/transitions; schedules) | quick wall | thorough: evaluations (states/transitions; schedules) | thorough wall |")
print("|---|---|---|---|---|---|")
for i in range(1, 21):
    pid = "C%02d" % i
    row = [pid]
    lvl = ""
    for d in ("/verif/evidence", "/verif/evidence/thorough"):
        f = os.path.join(d, pid + ".json")
        if not os.path.exists(f):
            row += ["-", "-"]
            continue
        e = json.load(open(f))
        c = e["coverage"]
        lvl = e["level"]
        extra = []
        if "states" in c:
            extra.append("%d/%d" % (c["states"], c["transitions"]))
        if "schedules" in c:
            extra.append("%d schedules" % c["schedules"])
        row += ["%d%s" % (c["evaluations"], (" (" + "; ".join(extra) + ")") if extra else ""), "%.0f s" % e["wall_s"]]
    print("| " + " | ".join([row[0], lvl] + row[1:]) + " |")
