#!/bin/sh
# re-run every kept seeded change against the CURRENT checks (own property's check), updating seeded/*/meta.json
cd /verif
for d in seeded/*/; do
  n=$(basename $d); p=${n%%-*}
  echo "=== $n"
  timeout 3000 tools/seed.py /verif/$d $p --keep-as $n 2>&1 | grep -E "exit=|CONFIRMED" | cut -c1-160
done
