#!/bin/sh
# Run checks against every behaviour-preserving / property-preserving patch under /verif/benign: ANY non-zero exit is a false
# alarm (exit 1) or a fragility of the harness (exit 2) and has to be fixed in the machinery.
# usage: tools/benign.sh own|all [name ...]        (own = only the check of the property the change was written against)
mode=$1; shift
cd /verif
names=${@:-$(ls benign)}
for n in $names; do
  tmp=$(mktemp -d /tmp/bn.XXXX); git -C /repo worktree add -q --detach $tmp/repo HEAD
  if ! git -C $tmp/repo apply --whitespace=nowarn /verif/benign/$n/patch.diff; then echo "== $n PATCH FAILS"; git -C /repo worktree remove --force $tmp/repo; rm -rf $tmp; continue; fi
  t=$(cd $tmp/repo && PYTHONPATH=$tmp/repo /venv/bin/python -m pytest -q -p no:cacheprovider -n 4 --deselect tests/test_parser.py::TestArgumentParsing::test_invalid_file_argument 2>&1 | tail -1)
  echo "== $n tests: $t"
  pid=${n#change-}
  if [ $mode = own ] && [ "$pid" != "$n" ]; then cs=$pid; else cs=$(jq -r '.checks[].property_id' MANIFEST.json); fi
  for c in $cs; do
    out=$(VERIF_REPO=$tmp/repo timeout 3000 ./run $c quick 2>&1); rc=$?
    if [ $rc -ne 0 ]; then echo "   $n: $c rc=$rc"; echo "$out" | grep -E "key=|HARNESS|Error" | head -4 | cut -c1-300; else echo "   $n: $c ok"; fi
  done
  git -C /repo worktree remove --force $tmp/repo; rm -rf $tmp
done
git -C /repo worktree prune
