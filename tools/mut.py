#!/venv/bin/python
"""Mutation helper: apply a patch to a scratch copy of /repo, optionally run the baseline tests there,
run checks with VERIF_REPO pointing at the copy, delete the copy.
usage: tools/mut.py <patch.diff> [--tests] [--tier quick|thorough] [--seed N] CNN [CNN...]"""
import os, shutil, subprocess, sys, tempfile

def main():
    a = sys.argv[1:]
    patch = os.path.abspath(a.pop(0))
    tests = "--tests" in a
    if tests: a.remove("--tests")
    tier = "quick"
    if "--tier" in a:
        i = a.index("--tier"); tier = a[i + 1]; del a[i:i + 2]
    seed = "0"
    if "--seed" in a:
        i = a.index("--seed"); seed = a[i + 1]; del a[i:i + 2]
    tmp = tempfile.mkdtemp(prefix="mut.", dir="/tmp")
    rc_all = 0
    try:
        dst = os.path.join(tmp, "repo")
        subprocess.check_call(["git", "-C", "/repo", "worktree", "add", "--detach", "-q", dst, "HEAD"])
        # carry uncommitted working-tree state of /repo too (normally none)
        r = subprocess.run(["git", "-C", dst, "apply", "--whitespace=nowarn", patch])
        if r.returncode:
            print("PATCH DOES NOT APPLY"); return 3
        if tests:
            r = subprocess.run(["/venv/bin/python", "-m", "pytest", "-q", "-p", "no:cacheprovider", "-x",
                                "--deselect", "tests/test_parser.py::TestArgumentParsing::test_invalid_file_argument",
                                "-n", "8"], cwd=dst, env=dict(os.environ, PYTHONPATH=dst, PYTHONDONTWRITEBYTECODE="1"),
                               capture_output=True, text=True)
            print("TESTS:", r.stdout.strip().splitlines()[-1] if r.stdout.strip() else r.stderr[-300:])
        for c in a:
            r = subprocess.run(["/verif/run", c, tier], env=dict(os.environ, VERIF_REPO=dst, VERIF_SEED=seed),
                               capture_output=True, text=True)
            out = [l for l in r.stdout.splitlines() if l.startswith(("VIOLATION", "  key=", "KNOWN"))]
            print("%s exit=%d %s" % (c, r.returncode, "DETECTED" if r.returncode == 1 else "MISSED" if r.returncode == 0 else "HARNESS-ERROR"))
            for l in out[:8]: print("   ", l[:220])
            if r.returncode == 2: print(r.stderr[-1500:])
            rc_all |= (r.returncode != 1)
    finally:
        subprocess.run(["git", "-C", "/repo", "worktree", "remove", "--force", dst])
        shutil.rmtree(tmp, ignore_errors=True)
        subprocess.run(["git", "-C", "/repo", "worktree", "prune"])
    return rc_all

sys.exit(main())
