#!/venv/bin/python
"""Regenerates /verif/MANIFEST.json from the table below (kept in one place so the manifest is always valid)."""
import json, os, sys

HERE = os.path.dirname(os.path.dirname(os.path.abspath(__file__)))
TRUST = ("CPython 3.12, hashlib/OpenSSL, unicodedata and the reference models under /verif/vf/ref (self-tested against "
         "published BIP vectors on every run); ecdsa back-end of the library (pysecp256k1 not importable here)")

# id: (level, engine, technique, text, design_ref, extra note)
CHECKS = {
    "C10": ("exploration", "E1 product",
            "bounded exhaustive enumeration of inputs (all strings up to a length, complete single-edit neighbourhoods) vs reference codec",
            "Every byte string of length<=2 (thorough 3), every Base58 string of length<=3 (thorough 4), every (length<=128, "
            "leading zeros) shape and the complete single-edit neighbourhood of address/WIF/xpub-shaped encodings are run "
            "through the real codec and compared with an independent codec; complete within those bounds, silent beyond.",
            "DESIGN.md §4 C10", ""),
    "C19": ("exploration", "E1 product",
            "bounded exhaustive enumeration of scripts, truncations and parser inputs vs reference wire format",
            "All element lengths 0..521, all non-push opcodes, all <=3-item sequences over the boundary alphabet, every strict "
            "prefix of their serialisations, every byte string of length<=5 (thorough 6) over an 11-symbol alphabet as parser "
            "input and all varints 0..70000 plus every power-of-two neighbourhood are executed on the real Script/varint "
            "code and compared with a strict reference parser/serialiser.",
            "DESIGN.md §4 C19", ""),
    "C18": ("fault_enumeration", "E4 answers",
            "exhaustive environment-answer enumeration: every PRF answer of a corner alphabet at every HMAC call of real histories (deviation bound 1, then 2), same substituted function drives implementation and reference",
            "The HMAC-SHA512 seam is replaced by a chosen-output function; for each of ~190 (thorough) scenarios every distinct "
            "(key,msg) call x every invalid answer (IL=n, n+1, 2^256-1, child scalar 0 / point at infinity) and valid neighbour is "
            "executed on the real code and on the reference under the same function; refusal <=> BIP32 declares the child invalid, "
            "no invalid node may remain in a children list. Reaches the 2^-127 branches no vector can.",
            "DESIGN.md §4 C18", "IL=0 for non-master calls is not judged (BIP32 does not declare it invalid; back-ends differ)"),
    "C04": ("exploration", "E1 product",
            "bounded exhaustive enumeration (every single-bit entropy, every word slot x word value, every illegal length) vs bit-level reference decoder",
            "Every single-bit and complemented entropy of all five sizes, every 11-bit value in every word slot, every byte length "
            "0..64 outside the legal set and whitespace-bearing hex are run through the real encoder; sentences are decoded word by "
            "word through the pinned official list (SHA-256 2f5eed53...) and compared bit for bit.",
            "DESIGN.md §4 C04", ""),
    "C17": ("exploration", "E1 product",
            "bounded exhaustive enumeration of index lists, a single-fault path grammar and deep paths vs reference grammar and reference derivation",
            "All 9,331 index lists of <=5 levels x both roots x three marker styles for format/parse identity; by_path against the "
            "reference derivation and iterated ckd; every fault token at every component position of four base paths (must raise on "
            "full and watch-only wallets); every 6..8-level (thorough ..12) path over {0,1'} must be honoured in full or refused.",
            "DESIGN.md §4 C17", "lenient Python numerals (+1, ' 1', 1_0, unicode digits) and a trailing '/' are counted, not judged"),
    "C12": ("exploration", "E1 product",
            "bounded exhaustive enumeration of all application parameters x boundary indexes x masters vs reference BIP85",
            "For each master every word count, every byte count 16..64, every password length 20..86, WIF and XPRV at indexes "
            "{0,1,2^31-1,seeded} are derived by the real code and compared with a reference BIP85 over a reference BIP32; the "
            "out-of-range grid on both sides of every bound (incl. negative indexes) must raise; results pairwise distinct.",
            "DESIGN.md §4 C12", ""),
    "C20": ("exploration", "E6 cli",
            "bounded exhaustive enumeration of argument vectors within <=1 / <=2 deviations of each command default, in-process with directory snapshots, subprocess conformance subset",
            "Every argument vector within the deviation ball is executed through the real main(); each outcome must be REFUSED (status!=0, "
            "no wallet token on stdout, directory unchanged) or SERVED (JSON identical to the library API for the same inputs, reference "
            "paranoia filter, BIP44-shaped rows, pre-existing paths untouched); clearly good vectors must be served, clearly bad refused.",
            "DESIGN.md §4 C20", "in-process seam validated against real subprocess runs on a fixed subset each run"),
    "C09": ("exploration", "E1 product",
            "bounded exhaustive enumeration (all powers of two, all prefix bytes, all lengths 0..40) vs own curve arithmetic",
            "Boundary scalars plus every power of two through every constructor and all four WIF flavours; every prefix byte 0..255 "
            "over valid x in 33- and 65-byte form, x=0..64 classified by the reference lift_x, x>=p, off-curve y, every byte length "
            "0..40; out-of-range scalars in int, bytes and WIF form must be refused by every constructor.",
            "DESIGN.md §4 C09", "hybrid 06/07 encodings are judged for consistency only; 64-byte raw x||y (accepted by ecdsa) is outside the stated 0..40 range and only counted"),
    "C05": ("exploration", "E1 product",
            "bounded exhaustive enumeration (keys x networks x kinds; all hash input lengths 0..1024) vs independent decoders and OpenSSL RIPEMD-160",
            "Each address produced by the wallet API / PublicKey.address for boundary keys (incl. points lifted from x with leading "
            "zero bytes, both parities) on both networks is decoded with independent Base58Check/Bech32 decoders and compared with "
            "hashes of hand-assembled script templates; RIPEMD-160/HASH160 compared with OpenSSL for every length 0..1024 x 4 patterns.",
            "DESIGN.md §4 C05", ""),
    "C07": ("exploration", "E1 product",
            "bounded exhaustive product of all 12 versions x field boundary values x 3 input forms vs reference serialiser",
            "Every combination of the twelve SLIP-132 versions with boundary depths, child numbers, fingerprints, chain codes and "
            "keys is serialised by the reference, parsed by the real code from str/bytes/BytesIO, compared field by field, "
            "re-serialised and compared with the identical 111-character string; unknown versions must be refused; public "
            "serialisations must carry the reference compressed key and not the scalar.",
            "DESIGN.md §4 C07", ""),
    "C01": ("model_checking", "E2 bfs",
            "explicit-state BFS over the derivation tree on the real nodes + full product of single steps incl. chosen-output PRF corners, every state compared with reference CKDpriv",
            "Breadth-first search of the derivation tree below seed-built and parsed roots (transitions = real ckd calls on the "
            "walked node objects; every state's fields and xprv/xpub strings compared with an independent CKDpriv; derive_path "
            "must land on the same state), plus the full product parent scalar x chain code x depth x index x PRF mode for single "
            "steps. Complete within the alphabets and depth bound; scalars outside the alphabets are not covered.",
            "DESIGN.md §4 C01", "the model is a functional reference; each transition is an execution of the implementation compared with it (traces_validated = transitions)"),
    "C02": ("model_checking", "E2 bfs",
            "explicit-state BFS over (private node, public node) pairs on the real code, PRF corner enumeration, refusal grid; every state compared with reference CKDpub",
            "BFS over pairs of real private/public nodes grown from the same root by the same non-hardened indexes; in every state "
            "the public node must equal the private node's public projection and the reference CKDpub with own curve arithmetic; "
            "chosen PRF outputs force doubling and wrap corners; every hardened request on public data must raise and store nothing.",
            "DESIGN.md §4 C02", "IL=0 under PRF substitution is excluded (not declared invalid by BIP32; ecdsa fallback refuses it on the public side)"),
    "C03": ("exploration", "E1 product",
            "bounded exhaustive product of Unicode mnemonic x passphrase shapes x networks, all seed lengths 0..80, constructor equivalence; own PBKDF2 reference",
            "The full product of a Unicode mnemonic alphabet (composed/decomposed twins, compatibility forms, CJK with U+3000, "
            "astral plane, empty) with a passphrase alphabet on both networks is pushed through the real seed function and "
            "wallet constructors and compared with an own PBKDF2-HMAC-SHA512 loop and HMAC 'Bitcoin seed'; all seed lengths "
            "0..80; the constructors from entropy/mnemonic/seed bytes/seed hex/xprv and new_wallet must hold one master.",
            "DESIGN.md §4 C03", "CPython's unicodedata normalisation tables are trusted"),
    "C11": ("exploration", "E5 gf32",
            "complete enumeration of all error patterns of weight<=4 through measured syndromes of the real polymod (meet in the middle over all 2.39M weight<=2 patterns), full (version,length) grid, rejection grammar, end-to-end substitutions",
            "All 18x43 (version,length) pairs x prefixes agree with a reference codec whose generator is derived from the BIP173 "
            "polynomial; a fault grammar on every legal grid point must be refused; every error pattern of weight<=2 over the 71 "
            "data positions gets its syndrome from the real bech32_polymod and all 2,390,287 syndromes must be pairwise distinct "
            "(=> no undetected error of weight<=4); all cross-constant weight-4 patterns are listed and replayed on real addresses.",
            "DESIGN.md §4 C11", "quick tier: weight-2 syndromes are XORs of directly measured weight-1 syndromes (affinity re-checked on two bases and at every emitted length); thorough tier: 2.39M direct polymod calls"),
    "C06": ("exploration", "E1 product",
            "bounded exhaustive product (deviation ball d<=2 / full product) of sources x networks x accounts x intervals, plus BFS over call histories on one wallet, vs a complete reference paper wallet",
            "Every vector of the configuration product is generated by the real PaperWallet and compared leaf by leaf with a complete "
            "expected dictionary built from the reference BIP32/39/85/SLIP-132/address models; rows are additionally checked for "
            "internal consistency without the path; JSON round trip and Wasabi export included; generate/wasabi histories on one object.",
            "DESIGN.md §4 C06", ""),
    "C16": ("exploration", "E1 product",
            "bounded exhaustive enumeration of networks x seeds x accounts x all output-producing APIs x all 12 re-import versions, plus BFS over two-wallet histories, judged by an independent network classifier",
            "Every string leaf of everything a wallet emits (addresses of all kinds, generate(), node keys in SLIP-132 and default "
            "flavour, Wasabi key) is classified by Base58Check version byte / Bech32 prefix / SLIP-132 version / coin type and must "
            "carry the wallet's network; wallets re-imported from each of the 12 prefixes at 3 export nodes; alternating requests "
            "between a mainnet and a testnet wallet in one process.",
            "DESIGN.md §4 C16", "BIP85 block excluded (BIP85 defines its children as mainnet-encoded; C12 owns them)"),
    "C14": ("model_checking", "E2 bfs",
            "explicit-state BFS over non-hardened sub-paths below every export node x 6 public versions on real watch-only and full wallets, refusal/secrecy grid with object-graph scan, request histories on one watch-only wallet",
            "Breadth-first search of the sub-path tree below six export nodes (incl. depth 200 / child number 2^32-1) under all six "
            "public prefixes: in each state the watch-only node must equal the full wallet's node and the reference (key, chain "
            "code, metadata, 5 address kinds, SLIP-132 string); every private or hardened request must raise; no private scalar, WIF "
            "or xprv of the full wallet may be reachable from the watch-only object graph.",
            "DESIGN.md §4 C14", ""),
    "C15": ("exploration", "E1 product",
            "bounded exhaustive product / deviation ball of wallet sources x networks x accounts x intervals through paranoia_mode and the CLI, every leaf decoded and compared with every secret leaf",
            "Each filtered structure (API) and each parsed CLI output (stdout and -f) is walked to every depth: no leaf may decode as "
            "a WIF or private extended key, equal or contain a secret leaf of the unfiltered output, and every path/address/SEC/pub "
            "must be present, identical and in order; the raw CLI text is scanned too.",
            "DESIGN.md §4 C15", ""),
    "C08": ("fault_enumeration", "E4 answers",
            "exhaustive environment-answer enumeration: every single-bit answer of a scripted OS random source x entry points x lengths, PRNG states, call histories <=3",
            "os.urandom / random._urandom / os.getrandom are replaced by one scripted logging source; for every entry point and all "
            "five lengths every answer in {all-zero, all-one, e_b for each requested bit} is served: bytes requested must cover ENT, "
            "the mnemonic must be a function of the answer only (three PRNG states, two processes), every entropy bit must take both "
            "values, all results distinct, call histories must not carry state, and with the real source reseeding must not repeat.",
            "DESIGN.md §4 C08", "statistical quality of the kernel CSPRNG is out of scope; sources bypassing the three patched functions would show as 'too few bytes requested'"),
    "C13": ("model_checking", "E2 bfs + E3 sched",
            "explicit-state BFS over all API-call histories on shared real objects (depth 3/4) + stateless exploration of all thread interleavings up to a preemption bound under a settrace baton scheduler",
            "(E2) every history of up to 3 (thorough 4) calls from a 19-operation alphabet on one shared wallet and the node objects "
            "earlier calls returned: each transition must equal the stateless reference result, generator cursors follow the model, "
            "root untouched, every children-list entry correct. (E3) real threads on shared wallet/nodes and shared pure helpers: all "
            "interleavings with <=2 (thorough 3) preemptions at package-state lines and <=1 preemption at every line of every package "
            "module; each schedule replayable by its choice list; determinism asserted on every root execution.",
            "DESIGN.md §4 C13", "not modelled: switches inside one source line, inside C code or third-party ecdsa/hashlib calls; >3 threads; histories beyond the depth bound"),
}

NOT_YET = "check not built yet in this session (work in progress; see DESIGN.md §9 build order)"


# layers added after the first version of a check (rounds 3-5 of seeded changes); appended to the level text
MORE = {
    "*hist": " Object-reuse histories (BFS with canon = history, long cyclic histories, eviction probes) complement the product.",
    "corner": " Computed-intermediate corner classes (vf/corners.py): inputs found by deterministic search with the reference so that every byte "
              "position of every named intermediate (hashes, checksums, fingerprints, coordinates, derived keys, digits) is 00 / ff and its "
              "first / last byte takes every value; complete for that stated family.",
    "entry": " Alternative entry points (wrappers, bulk calls, parse-then-use, consumers of the encoded form) are driven with the same oracle.",
}
MORE_FOR = {"C01": ("corner", "entry"), "C02": ("corner",), "C03": ("corner",), "C04": ("corner", "entry"), "C05": ("corner", "entry"), "C06": ("entry",),
            "C07": ("corner",), "C09": ("corner",), "C10": ("corner", "entry"), "C11": ("entry",), "C12": ("corner", "entry"), "C13": ("entry",),
            "C14": ("corner", "entry"), "C15": ("corner",), "C16": ("entry",), "C17": ("corner", "entry"), "C19": ("entry",), "C20": ("corner", "entry")}


def main():
    props = [json.loads(l) for l in open(os.path.join(HERE, "properties.jsonl"))]
    checks, na = [], []
    for p in props:
        pid = p["id"]
        if pid in CHECKS and os.path.exists(os.path.join(HERE, "vf", "checks", pid.lower() + ".py")):
            level, engine, tech, text, ref, note = CHECKS[pid]
            text = text + "".join(MORE[k] for k in MORE_FOR.get(pid, ()))
            checks.append({
                "property_id": pid,
                "quick_cmd": "./run %s quick" % pid,
                "thorough_cmd": "./run %s thorough" % pid,
                "evidence_file": "/verif/evidence/%s.json" % pid,
                "replay_cmd_template": "./run %s --replay {path}" % pid,
                "engine": engine,
                "level_claimed": {"category": level, "text": text, "design_ref": ref},
                "level_note": TRUST + ((" ; " + note) if note else ""),
                "technique": tech,
            })
        else:
            na.append({"property_id": pid, "reason": NOT_YET})
    m = {
        "version": 1,
        "setup_cmd": "./run SELFTEST quick",
        "hooks": {
            "guard": "BTC_HD_WALLET_VERIF",
            "enable": "no source hooks exist: every seam (PRF, OS entropy, argv/stdout, scheduler) is installed from outside "
                      "the package by the checks themselves; checks import the package from /repo's working tree",
            "baseline_off_cmd": "cd /repo && /venv/bin/python -m pytest -ra -q -p no:cacheprovider --timeout=900 "
                                "--continue-on-collection-errors",
            "source_commits": [],
            "add_only": True,
        },
        "engines": [
            {"name": "E1 product", "path": "vf/core.py", "kind_free_text": "bounded-exhaustive product / deviation-ball enumerator over a 16-process fork pool; vf/corners.py builds complete covers of computed-intermediate corner classes"},
            {"name": "E2 bfs", "path": "vf/bfs.py", "kind_free_text": "explicit-state BFS over the real transition functions with replayed histories"},
            {"name": "E3 sched", "path": "vf/sched.py", "kind_free_text": "stateless preemption-bounded schedule explorer for real threads (settrace baton; package locks replaced by cooperative locks: blocking points, deadlock detection)"},
            {"name": "E4 answers", "path": "vf/answers.py", "kind_free_text": "environment-answer (PRF / OS entropy) enumerator at every call position"},
            {"name": "E5 gf32", "path": "vf/checks/c11.py", "kind_free_text": "complete Bech32 <=4-error enumeration through measured syndromes"},
            {"name": "E6 cli", "path": "vf/cli.py", "kind_free_text": "in-process CLI runner with directory snapshots and subprocess cross-check"},
        ],
        "checks": checks,
        "not_applicable": na,
        "notes": "See DESIGN.md. Exit 0 = held on everything explored; exit 1 + VIOLATION line; exit 2 = harness error.",
    }
    for e in m["engines"]:
        e["serves_properties"] = [c["property_id"] for c in checks if c["engine"].split()[0] in e["name"]]
    with open(os.path.join(HERE, "MANIFEST.json"), "w") as f:
        json.dump(m, f, indent=1)
    print("MANIFEST: %d checks, %d not_applicable" % (len(checks), len(na)))


main()
